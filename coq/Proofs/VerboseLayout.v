(* C09, the verbose rendering (%+v): its exact layout.

   1. [format_entries_layout] / [verbose_layout]: the rendering is
        first line, "\n", the entry lines joined by "\n", "\nError types:", one item per entry
      with entry k (k = 1..n, n = number of visible layers) = "(1)" resp. indentation ++ "Wraps: (k)",
      followed by the entry's head, its details (already laid out with the margin "  | " by the
      engine's Write) and its stack trace.
      The entries are in ENGINE order ([engine_order]: a node, then its multi-cause branches from
      the LAST to the first, then its single cause): this is the visit order of Report.visit_all
      only when no node has two or more branches ([verbose_order_not_visit_order]).
   2. the first line: it is formatSingleLineOutput over the detail-mode entries.  It is NOT the
      %v rendering in general, nor its first line ([first_line_not_short], [first_line_not_first_line_of_short]);
      [heads_sim]: the exact relation between the heads of the two engine runs, for every tree;
      [verbose_first_line_is_short]: equality when every visible one-line head is "settled".
   3. [verbose_entries_spec]: for every tree, every layer at every depth: the entry at the layer's
      position has the layer's Go type, its depth, and for each library wrapper with a detail
      (hint, detail, issue link, telemetry keys, domain, tags, codes, assertion, safe details,
      stack, mark) an empty head and exactly the detail text the wrapper prints. *)
From Coq Require Import Lia List Bool Permutation.
From Errv Require Import Base.Str Redact.Markers Redact.Buffer Model.Err Model.Sem Model.Report
     Proofs.StrFacts Proofs.FastIs Proofs.RedactFacts Proofs.EngineFacts Proofs.HiddenNI Proofs.ShortText
     Proofs.HiddenVisible.
Import ListNotations.

(* ================================================================== *)
(* 1. the layout of formatEntries, for every entry list                 *)
(* ================================================================== *)
(* printEntry = head part ++ details part ++ stack part *)
Definition entry_head_part (red : bool) (fe : fentry) : str :=
  match fe_head fe with
  | [] => []
  | c :: _ => (if c =? nl then [] else [sp]) ++ out_bytes red fe (fe_head fe)
  end.

Definition entry_details_part (red : bool) (fe : fentry) : str :=
  match fe_details fe with
  | [] => []
  | c :: _ =>
    (match fe_head fe with
     | [] => if c =? nl then [] else [sp]
     | _ => []
     end) ++ out_bytes red fe (fe_details fe)
  end.

Definition entry_stack_part (fe : fentry) : str :=
  match fe_stack fe with
  | Some stk =>
    nl :: lit "  -- stack trace:" ++ replace_nl (print_stack stk) detail_sep ++
    (if fe_elided fe then detail_sep ++ lit "[...repeated from below...]" else [])
  | None => []
  end.

Lemma print_entry_parts red fe :
  print_entry red fe = entry_head_part red fe ++ entry_details_part red fe ++ entry_stack_part fe.
Proof. reflexivity. Qed.

(* what precedes the entry: "(1)" for the first one, the branch indentation and "Wraps: (k)" for the others *)
Definition entry_label (k : N) (fe : fentry) : str :=
  if k =? 1 then lit "(1)"
  else indent_for (fe_depth fe) ++ lit "Wraps: (" ++ dec_of_N k ++ lit ")".

Definition entry_text (red : bool) (k : N) (fe : fentry) : str :=
  entry_label k fe ++ print_entry red fe.

Fixpoint entry_lines (red : bool) (es : list fentry) (k : N) : list str :=
  match es with
  | [] => []
  | fe :: r => entry_text red k fe :: entry_lines red r (k + 1)
  end.

Definition type_item (k : N) (fe : fentry) : str :=
  lit " (" ++ dec_of_N k ++ lit ") " ++ fe_ty fe.

Fixpoint type_items (es : list fentry) (k : N) : list str :=
  match es with
  | [] => []
  | fe :: r => type_item k fe :: type_items r (k + 1)
  end.

(* the indentation of a multi-cause branch at depth d (0 and 1: none) *)
Lemma indent_for_small : indent_for 0 = [] /\ indent_for 1 = [].
Proof. split; reflexivity. Qed.

Lemma indent_for_deep k :
  indent_for (S (S k)) = rep_str k (lit "  ") ++ [226; 148; 148; 226; 148; 128; 32].
Proof. reflexivity. Qed.

Lemma types_line_items es : forall k, types_line es k = List.concat (type_items es k).
Proof.
  induction es as [|fe r IH]; intro k; [reflexivity|].
  cbn [types_line type_items List.concat]. unfold type_item. rewrite IH, <- !app_assoc. reflexivity.
Qed.

Lemma wraps_lines_entry_lines red es : forall k, 1 < k ->
  wraps_lines red es k = List.concat (List.map (cons nl) (entry_lines red es k)).
Proof.
  induction es as [|fe r IH]; intros k Hk; [reflexivity|].
  cbn [wraps_lines entry_lines List.map List.concat].
  rewrite IH by lia. unfold entry_text, entry_label.
  replace (k =? 1) with false by (symmetry; apply N.eqb_neq; lia).
  cbn [app]. rewrite <- !app_assoc. reflexivity.
Qed.

Lemma join_nl_cons x l : join [nl] (x :: l) = x ++ List.concat (List.map (cons nl) l).
Proof.
  revert x. induction l as [|y l IH]; intro x.
  - cbn [join List.map List.concat]. now rewrite app_nil_r.
  - change (join [nl] (x :: y :: l)) with (x ++ [nl] ++ join [nl] (y :: l)).
    rewrite IH. reflexivity.
Qed.

Theorem format_entries_layout red fe r :
  format_entries red (fe :: r) =
  single_line red (fe :: r) [] ++
  nl :: join [nl] (entry_lines red (fe :: r) 1) ++
  nl :: lit "Error types:" ++ List.concat (type_items (fe :: r) 1).
Proof.
  unfold format_entries. rewrite types_line_items.
  cbn [entry_lines]. rewrite join_nl_cons.
  rewrite wraps_lines_entry_lines by lia.
  unfold entry_text at 1, entry_label at 1. cbn [N.eqb Pos.eqb].
  f_equal. cbn [app]. f_equal. rewrite <- !app_assoc. reflexivity.
Qed.

Lemma entry_lines_length red es : forall k, List.length (entry_lines red es k) = List.length es.
Proof. induction es as [|fe r IH]; intro k; cbn [entry_lines List.length]; [reflexivity|now rewrite IH]. Qed.

Lemma type_items_length es : forall k, List.length (type_items es k) = List.length es.
Proof. induction es as [|fe r IH]; intro k; cbn [type_items List.length]; [reflexivity|now rewrite IH]. Qed.

(* entry number i+1 (counting from 1) is the text of the i-th element of the list *)
Lemma entry_lines_nth red es : forall k i fe,
  nth_error es i = Some fe ->
  nth_error (entry_lines red es k) i = Some (entry_text red (k + N.of_nat i) fe).
Proof.
  induction es as [|fe0 r IH]; intros k i fe H; [destruct i; discriminate|].
  destruct i as [|i]; cbn [nth_error entry_lines] in *.
  - injection H as ->. now rewrite N.add_0_r.
  - rewrite (IH _ _ _ H). do 2 f_equal. lia.
Qed.

Lemma type_items_nth es : forall k i fe,
  nth_error es i = Some fe ->
  nth_error (type_items es k) i = Some (type_item (k + N.of_nat i) fe).
Proof.
  induction es as [|fe0 r IH]; intros k i fe H; [destruct i; discriminate|].
  destruct i as [|i]; cbn [nth_error type_items] in *.
  - injection H as ->. now rewrite N.add_0_r.
  - rewrite (IH _ _ _ H). do 2 f_equal. lia.
Qed.

(* every entry text, and every type item, is a piece of the rendering *)
Lemma infix_join_nth l : forall i x, nth_error l i = Some x -> infix_of x (join [nl] l).
Proof.
  induction l as [|y l IH]; intros i x H; [destruct i; discriminate|].
  destruct l as [|z l].
  - destruct i as [|[|i]]; try discriminate. injection H as ->. apply infix_refl.
  - change (join [nl] (y :: z :: l)) with (y ++ [nl] ++ join [nl] (z :: l)).
    destruct i as [|i].
    + injection H as ->. apply infix_app_r. apply infix_refl.
    + apply infix_app_l. apply infix_app_l. exact (IH i x H).
Qed.

Lemma infix_concat_nth l : forall i x, nth_error l i = Some x -> infix_of x (List.concat l).
Proof.
  induction l as [|y l IH]; intros i x H; [destruct i; discriminate|].
  cbn [List.concat]. destruct i as [|i].
  - injection H as ->. apply infix_app_r. apply infix_refl.
  - apply infix_app_l. exact (IH i x H).
Qed.

Lemma infix_cons_l a b c : infix_of a b -> infix_of a (c :: b).
Proof. intro H. change (c :: b) with ([c] ++ b). now apply infix_app_l. Qed.

Theorem format_entries_shows_entry red es i fe :
  nth_error es i = Some fe ->
  infix_of (entry_text red (N.of_nat (S i)) fe) (format_entries red es) /\
  infix_of (type_item (N.of_nat (S i)) fe) (format_entries red es).
Proof.
  intro H. destruct es as [|fe0 r]; [destruct i; discriminate|].
  rewrite format_entries_layout.
  replace (N.of_nat (S i)) with (1 + N.of_nat i) by lia. split.
  - apply infix_app_l. apply infix_cons_l. apply infix_app_r.
    apply (infix_join_nth _ i). now apply entry_lines_nth.
  - apply infix_app_l. apply infix_cons_l. apply infix_app_l. apply infix_cons_l.
    apply infix_app_l. apply (infix_concat_nth _ i). now apply type_items_nth.
Qed.

(* ================================================================== *)
(* 2. state.Write into the detail buffer, closed form                   *)
(* ================================================================== *)
(* HiddenVisible.dind is the layout once the detail buffer holds a byte.  Before that
   (notEmpty = false) the engine behaves differently: pending newlines are only
   materialised when the SECOND byte of the text arrives, in front of the first one. *)
Definition all_nl (s : str) : bool := forallb (fun c => c =? nl) s.

Fixpoint dfirst (n : nat) (s : str) : str :=
  match s with
  | [] => []
  | c :: r =>
    if c =? nl then dfirst (S n) r
    else match r with
         | [] => [c]
         | c2 :: r' => if c2 =? nl then c :: dind (S n) r' else nl_fill n ++ c :: dind 0 r
         end
  end.

Fixpoint nnf (n : nat) (s : str) : nat :=
  match s with
  | [] => n
  | c :: r =>
    if c =? nl then nnf (S n) r
    else match r with
         | [] => n
         | c2 :: r' => if c2 =? nl then nn_after (S n) r' else nn_after 0 r
         end
  end.

Lemma write_loop_first b : forall st,
  fs_hasDetail st = true -> fs_wantDetail st = true -> fs_notEmpty st = false ->
  write_loop b st [] =
  mkst (fs_redout st) (fs_plus st) (fs_entries st) (fs_buf st ++ dfirst (fs_needNewline st) b)
       (fs_headbuf st) (fs_last st) true true (negb (all_nl b)) (nnf (fs_needNewline st) b).
Proof.
  induction b as [|c r IH]; intros st H1 H2 H3;
    destruct st as [ro pl es bf hb la hd wd ne nn]; fsimp_in H1; fsimp_in H2; fsimp_in H3; subst hd wd ne.
  - cbn [write_loop dfirst nnf all_nl forallb negb rev]. fsimp. now rewrite !app_nil_r.
  - destruct (c =? nl) eqn:Ec.
    + cbn [write_loop dfirst nnf all_nl forallb]. rewrite Ec.
      fsimp. rewrite IH by reflexivity. fsimp. cbn [rev andb]. now rewrite app_nil_r.
    + destruct r as [|c2 r'].
      * cbn [write_loop dfirst nnf all_nl forallb]. rewrite Ec.
        fsimp. rewrite andb_false_r. cbn [andb negb rev app]. fsimp. reflexivity.
      * destruct (c2 =? nl) eqn:E2.
        -- cbn [write_loop dfirst nnf all_nl forallb]. rewrite Ec, E2.
           fsimp. rewrite andb_false_r. cbn [andb negb]. fsimp.
           rewrite write_loop_detail by (try reflexivity; intros _; reflexivity).
           fsimp. cbn [rev app]. now rewrite <- !app_assoc.
        -- rewrite write_loop_detail2 by (assumption || reflexivity).
           cbn [dfirst nnf all_nl forallb]. rewrite Ec, E2. fsimp.
           cbn [dind nn_after andb negb]. rewrite E2. cbn [nl_fill Nat.eqb app]. reflexivity.
Qed.

(* the part of the state that Write transforms, in detail mode *)
Definition dw (x : str * bool * nat) (b : str) : str * bool * nat :=
  let '(buf, ne, nn) := x in
  if ne then (buf ++ dind nn b, true, nn_after nn b)
  else (buf ++ dfirst nn b, negb (all_nl b), nnf nn b).

Definition dst (st : fstate) (x : str * bool * nat) : fstate :=
  let '(buf, ne, nn) := x in
  mkst (fs_redout st) (fs_plus st) (fs_entries st) buf (fs_headbuf st) (fs_last st) true true ne nn.

Lemma st_write_dw st b :
  fs_hasDetail st = true -> fs_wantDetail st = true ->
  st_write st b = dst st (dw (fs_buf st, fs_notEmpty st, fs_needNewline st) b).
Proof.
  intros H1 H2. destruct (fs_notEmpty st) eqn:H3.
  - rewrite st_write_detail by assumption. reflexivity.
  - destruct b as [|c r].
    + destruct st as [ro pl es bf hb la hd wd ne nn]; fsimp_in H1; fsimp_in H2; fsimp_in H3; subst hd wd ne.
      cbn [st_write dw dfirst nnf all_nl forallb negb dst]. fsimp. now rewrite app_nil_r.
    + unfold st_write. rewrite write_loop_first by assumption. reflexivity.
Qed.

Lemma fold_st_write_dw ws : forall st x,
  fs_hasDetail st = true -> fs_wantDetail st = true ->
  x = (fs_buf st, fs_notEmpty st, fs_needNewline st) ->
  fold_left st_write ws st = dst st (fold_left dw ws x).
Proof.
  induction ws as [|b ws IH]; intros st x H1 H2 ->; cbn [fold_left].
  - destruct st as [ro pl es bf hb la hd wd ne nn]; fsimp_in H1; fsimp_in H2; subst hd wd. reflexivity.
  - rewrite st_write_dw by assumption.
    destruct (dw (fs_buf st, fs_notEmpty st, fs_needNewline st) b) as [[bf' ne'] nn'] eqn:E.
    rewrite (IH _ (bf', ne', nn')); reflexivity.
Qed.

(* the detail text made of the successive writes [ws], starting from an empty entry *)
Definition dlayout (ws : list str) : str := fst (fst (fold_left dw ws ([], false, 0%nat))).

(* a text without newline is written as it is *)
Lemma dfirst_plain t : no_nl t = true -> dfirst 0 t = t.
Proof.
  intro H. destruct t as [|c [|c2 r]]; [reflexivity| |].
  - cbn [no_nl forallb] in H. apply andb_true_iff in H as [Hc _]. apply negb_true_iff in Hc.
    cbn [dfirst]. now rewrite Hc.
  - cbn [no_nl forallb] in H. apply andb_true_iff in H as [Hc H]. apply negb_true_iff in Hc.
    pose proof H as H'. cbn [forallb] in H'. apply andb_true_iff in H' as [Hc2 _]. apply negb_true_iff in Hc2.
    cbn [dfirst]. rewrite Hc, Hc2. cbn [nl_fill Nat.eqb app]. f_equal.
    replace (c2 :: r) with ((c2 :: r) ++ []) at 1 by apply app_nil_r.
    rewrite dind_plain by exact H. cbn [dind]. now rewrite app_nil_r.
Qed.

Lemma dlayout_plain t : no_nl t = true -> dlayout [t] = t.
Proof. intro H. unfold dlayout. cbn [fold_left dw fst app]. now apply dfirst_plain. Qed.

(* a tidy text (no empty line, no trailing newline) that does not start with a newline:
   every newline is followed by the margin *)
Lemma dfirst_tidy c r :
  (c =? nl) = false -> tidy (c :: r) = true -> dfirst 0 (c :: r) = replace_nl (c :: r) detail_sep.
Proof.
  intros Hc Ht. cbn [tidy] in Ht. rewrite Hc in Ht.
  cbn [dfirst replace_nl]. rewrite Hc.
  destruct r as [|c2 r']; [reflexivity|].
  destruct (c2 =? nl) eqn:E2.
  - cbn [tidy] in Ht. rewrite E2 in Ht. destruct r' as [|d r'']; [discriminate|].
    apply andb_true_iff in Ht as [Hd Ht]. apply negb_true_iff in Hd.
    destruct (dind_tidy _ Ht) as [_ I2]. rewrite (I2 d r'' eq_refl Hd).
    cbn [replace_nl]. rewrite E2. reflexivity.
  - cbn [nl_fill Nat.eqb app]. destruct (dind_tidy _ Ht) as [I1 _]. now rewrite I1.
Qed.

Lemma dlayout_tidy c r :
  (c =? nl) = false -> tidy (c :: r) = true -> dlayout [c :: r] = replace_nl (c :: r) detail_sep.
Proof. intros Hc Ht. unfold dlayout. cbn [fold_left dw fst app]. now apply dfirst_tidy. Qed.

(* ================================================================== *)
(* 3. what each library wrapper prints under p.Detail()                 *)
(* ================================================================== *)
Fixpoint tag_writes (tags : list (str * tagval)) (first : bool) : list str :=
  match tags with
  | [] => []
  | kv :: r =>
    (if first then [] else [sprint_pieces [PLit (lit ",")]]) ++
    sprint_pieces [PRaw (tag_redactable kv)] :: tag_writes r false
  end.

Fixpoint safe_detail_writes (ds : list str) (comma : str) : list str :=
  match ds with
  | [] => []
  | d :: r => sprint_pieces [PSafe comma; PSafe d] :: safe_detail_writes r [nl]
  end.

(* the successive Write calls (one per Print / Printf) of the wrapper's detail part *)
Definition wrap_detail_writes (w : wlayer) : option (list str) :=
  match w with
  | WStack _ => Some [sprint_pieces [PLit (lit "attached stack trace")]]
  | WHint h => Some [h]
  | WDetail d => Some [d]
  | WIssueLink url det =>
    Some ((match url with [] => [] | _ => [sprint_pieces [PLit (lit "issue: "); PSafe url]] end) ++
          (match det with
           | [] => []
           | _ => [sprint_pieces [PSafe (match url with [] => [] | _ => [nl] end);
                                  PLit (lit "detail: "); PSafe det]]
           end))
  | WTelemetry keys => Some [sprint_pieces [PLit (lit "keys: ["); PSafe (join [sp] keys); PLit (lit "]")]]
  | WDomain d => Some [sprint_pieces [PSafe d]]
  | WContext tags _ =>
    Some (match tags with
          | [] => []
          | _ => sprint_pieces [PLit (lit "tags: [")] :: tag_writes tags true ++ [sprint_pieces [PLit (lit "]")]]
          end)
  | WAssert => Some [sprint_pieces [PLit (lit "assertion failure")]]
  | WMark m =>
    Some [sprint_pieces [PLit (lit "forced error mark" ++ [nl])]; mark_text m]
  | WSafeDetails ds =>
    Some (if Nat.eqb (List.length ds) 1 then safe_detail_writes ds []
          else sprint_pieces [PSafe (dec_of_N (N.of_nat (List.length ds))); PLit (lit " safe detail");
                              PSafe (lit "s"); PLit (lit " enclosed")]
               :: safe_detail_writes ds [nl])
  | WHTTP code => Some [sprint_pieces [PLit (lit "http code: "); PUnsafe (dec_of_Z code)]]
  | WGrpc code => Some [sprint_pieces [PLit (lit "gRPC code: "); PSafe (grpc_code_name code)]]
  | _ => None
  end.

(* is the wrapper's buffer redactable (SafeFormatError) or plain (FormatError: hints and details)? *)
Definition wrap_red (w : wlayer) : bool :=
  match w with WHint _ | WDetail _ => false | _ => true end.

Lemma print_tags_writes tags : forall st first,
  print_tags st tags first = fold_left st_write (tag_writes tags first) st.
Proof.
  induction tags as [|kv r IH]; intros st first; cbn [print_tags tag_writes]; [reflexivity|].
  rewrite fold_left_app. cbn [fold_left]. rewrite IH. destruct first; reflexivity.
Qed.

Lemma print_safe_details_writes ds : forall st comma,
  print_safe_details st ds comma = fold_left st_write (safe_detail_writes ds comma) st.
Proof.
  induction ds as [|d r IH]; intros st comma; cbn [print_safe_details safe_detail_writes fold_left];
    [reflexivity|]. now rewrite IH.
Qed.

(* the state a node's own part starts from, and the one after p.Detail() *)
Definition fresh (ro pl : bool) (es : list fentry) (la : stack) (d : bool) : fstate :=
  mkst ro pl es [] [] la false d false 0.
Definition fresh_detail (ro pl : bool) (es : list fentry) (la : stack) : fstate :=
  mkst ro pl es [] [] la true true false 0.

Lemma fl_cons {A B} (f : A -> B -> A) x l a : fold_left f (x :: l) a = fold_left f l (f a x).
Proof. reflexivity. Qed.
Lemma fl_nil {A B} (f : A -> B -> A) a : fold_left f [] a = a.
Proof. reflexivity. Qed.

Lemma st_detail_fresh ro pl es la :
  st_detail (fresh ro pl es la true) = (fresh_detail ro pl es la, true).
Proof. reflexivity. Qed.

(* (proofs by rewriting only: conversion on terms that contain closed strings is slow) *)
Lemma wrap_body_detail w ws ro pl es la :
  wrap_detail_writes w = Some ws ->
  wrap_body w (fresh ro pl es la true) =
  Some (fold_left st_write ws (fresh_detail ro pl es la), false, wrap_red w).
Proof.
  destruct w; cbn [wrap_detail_writes]; intro H; try discriminate; injection H as <-;
    cbn [wrap_body wrap_red]; unfold if_detail; rewrite ?st_detail_fresh; unfold sp_print, pl_print; cbv zeta.
  - rewrite fl_cons, fl_nil. reflexivity.
  - rewrite fl_cons, fl_nil. reflexivity.
  - rewrite fl_cons, fl_nil. reflexivity.
  - destruct url, det; cbn [app]; rewrite ?fl_cons, fl_nil; reflexivity.
  - rewrite fl_cons, fl_nil. reflexivity.
  - rewrite fl_cons, fl_nil. reflexivity.
  - destruct tags as [|kv r]; cbn [andb negb].
    + rewrite fl_nil. reflexivity.
    + rewrite print_tags_writes. unfold sp_print. rewrite fl_cons, fold_left_app, fl_cons, fl_nil. reflexivity.
  - rewrite fl_cons, fl_nil. reflexivity.
  - unfold mark_text, mark_first_type. rewrite !fl_cons, fl_nil. reflexivity.
  - destruct (Nat.eqb (List.length ds) 1); rewrite print_safe_details_writes; unfold sp_print;
      rewrite ?fl_cons; reflexivity.
  - rewrite fl_cons, fl_nil. reflexivity.
  - rewrite fl_cons, fl_nil. reflexivity.
Qed.

(* ================================================================== *)
(* 4. the entries of the engine run: order, types, depths, own details  *)
(* ================================================================== *)
(* the order in which formatEntries prints the layers: the node, then (the engine
   appends the branches in order and prints the entry list backwards) its branches
   from the last to the first, then its single cause *)
Fixpoint engine_order (e : err) : list err :=
  e :: match e with
       | Wrap _ _ c | Second _ c _ | OWrap _ _ _ _ c => engine_order c
       | Multi _ _ cs | OLeaf _ _ _ cs => fold_right (fun c acc => acc ++ engine_order c) [] cs
       | _ => []
       end.

(* entry.depth: 0 outside multi-cause branches, the depth in the tree inside *)
Fixpoint depths (e : err) (w : bool) (k : nat) : list nat :=
  (if w then k else 0%nat) ::
  match e with
  | Wrap _ _ c | Second _ c _ | OWrap _ _ _ _ c => depths c w (S k)
  | Multi _ _ cs | OLeaf _ _ _ cs => fold_right (fun c acc => acc ++ depths c true (S k)) [] cs
  | _ => []
  end.

Definition kids_order (single : option err) (cs : list err) : list err :=
  fold_right (fun c acc => acc ++ engine_order c) [] cs ++
  match single with Some c => engine_order c | None => [] end.

Definition kids_depths (single : option err) (cs : list err) (w : bool) (k : nat) : list nat :=
  fold_right (fun c acc => acc ++ depths c true (S k)) [] cs ++
  match single with Some c => depths c w (S k) | None => [] end.

Definition wrap_shown (w : wlayer) (ro : bool) (t : str) : str :=
  if wrap_red w then shown ro t else t.

(* what the entry of a library wrapper with a detail looks like *)
Definition detail_clause (ro : bool) (fe : fentry) (x : err) : Prop :=
  match x with
  | Wrap _ w _ =>
    match wrap_detail_writes w with
    | Some ws => fe_head fe = [] /\ fe_details fe = wrap_shown w ro (dlayout ws) /\
                 fe_red fe = wrap_red w && ro
    | None => True
    end
  | _ => True
  end.

(* a withStack layer keeps its stack trace: the frames not shared with the trace printed
   below it (at least the first one) *)
Definition stack_clause (fe : fentry) (x : err) : Prop :=
  match x with
  | Wrap _ (WStack stk) _ =>
    exists n, fe_stack fe = Some (firstn n stk) /\ (stk <> [] -> (1 <= n)%nat)
  | _ => True
  end.

Definition own_clause (d ro : bool) (fe : fentry) (x : err) : Prop :=
  fe_ty fe = go_type_string x /\ stack_clause fe x /\ (d = true -> detail_clause ro fe x).

Definition node_inv (x : err) : Prop :=
  forall d o w k st, fs_buf st = [] ->
    exists Ec, fs_entries (fst (ns_fmt (sem x) o d w k st)) = Ec ++ fs_entries st /\
               snd (ns_fmt (sem x) o d w k st) = List.length Ec /\
               Forall2 (own_clause d (fs_redout st)) Ec (engine_order x) /\
               List.map fe_depth Ec = depths x w k.

(* ---- marking entries as elided touches nothing else ---- *)
Lemma mark_first_app n Ec old : n = List.length Ec -> mark_first n (Ec ++ old) = mark_first n Ec ++ old.
Proof.
  intros ->. induction Ec as [|e Ec IH]; cbn [List.length mark_first app].
  - destruct old; reflexivity.
  - now rewrite IH.
Qed.

Lemma mark_first_clause d ro n : forall Ec xs,
  Forall2 (own_clause d ro) Ec xs -> Forall2 (own_clause d ro) (mark_first n Ec) xs.
Proof.
  induction n as [|n IH]; intros Ec xs H; [destruct Ec; exact H|].
  destruct H as [|fe x Ec xs Hx H]; cbn [mark_first]; constructor; [|now apply IH].
  destruct Hx as (T & S & D). split; [exact T|]. split.
  - unfold stack_clause in *. destruct x; try exact I. destruct w; exact S.
  - intro Hd. specialize (D Hd).
    unfold detail_clause in *. destruct x; try exact I.
    destruct (wrap_detail_writes w); exact D.
Qed.

Lemma elide_shared_firstn prev new :
  exists n, fst (elide_shared prev new) = firstn n new /\ (new <> [] -> (1 <= n)%nat).
Proof.
  unfold elide_shared. destruct prev as [|p prev].
  - exists (List.length new). cbn [fst]. rewrite firstn_all. split; [reflexivity|].
    destruct new; [congruence|cbn [List.length]; lia].
  - destruct new as [|f new].
    + exists 0%nat. split; [reflexivity|congruence].
    + cbv zeta. cbn [fst].
      match goal with |- context [firstn ?i _] => exists i end. split; [reflexivity|].
      intros _. match goal with |- context [Nat.eqb ?a 0] => destruct (Nat.eqb a 0) eqn:E end; [lia|].
      apply PeanoNat.Nat.eqb_neq in E. lia.
Qed.

Lemma mark_first_depth n : forall Ec, List.map fe_depth (mark_first n Ec) = List.map fe_depth Ec.
Proof.
  induction n as [|n IH]; intros [|e Ec]; cbn [mark_first List.map fe_depth]; try reflexivity.
  now rewrite IH.
Qed.

Lemma collect_entry_ty st ty r w k : fe_ty (collect_entry st ty r w k) = ty.
Proof.
  unfold collect_entry.
  destruct (fs_wantDetail st), (fs_hasDetail st), r, (fs_redout st); reflexivity.
Qed.

Lemma collect_entry_depth st ty r w k : fe_depth (collect_entry st ty r w k) = if w then k else 0%nat.
Proof.
  unfold collect_entry.
  destruct (fs_wantDetail st), (fs_hasDetail st), r, (fs_redout st); reflexivity.
Qed.

(* ---- the multi-cause loop ---- *)
Lemma fold_multi_inv d depth cs :
  Forall node_inv cs ->
  forall acc, fs_buf (fst acc) = [] ->
    let r := fold_left
      (fun (acc : fstate * nat) (k : nsem) =>
         let '(s', m) := ns_fmt k false d true (S depth) (fst acc) in (s', (snd acc + m)%nat))
      (List.map sem cs) acc in
    exists Ec, fs_entries (fst r) = Ec ++ fs_entries (fst acc) /\
               snd r = (snd acc + List.length Ec)%nat /\
               Forall2 (own_clause d (fs_redout (fst acc))) Ec
                       (fold_right (fun c a => a ++ engine_order c) [] cs) /\
               List.map fe_depth Ec = fold_right (fun c a => a ++ depths c true (S depth)) [] cs /\
               fs_buf (fst r) = [] /\ fs_redout (fst r) = fs_redout (fst acc).
Proof.
  induction 1 as [|c cs Hc Hcs IH]; intros acc Hb; cbn [List.map fold_left fold_right].
  - cbv zeta. exists []. cbn [app List.length List.map]. repeat split; try reflexivity; [lia|constructor|exact Hb].
  - cbv zeta.
    destruct (Hc d false true (S depth) (fst acc) Hb) as (Ec1 & E1 & N1 & F1 & D1).
    pose proof (fmt_buf_nil c false d true (S depth) (fst acc)) as B1.
    pose proof (fmt_redout c false d true (S depth) (fst acc)) as R1.
    destruct (ns_fmt (sem c) false d true (S depth) (fst acc)) as [s' m]. cbn [fst snd] in *.
    destruct (IH (s', (snd acc + m)%nat) B1) as (Ec2 & E2 & N2 & F2 & D2 & B2 & R2).
    cbv zeta in *. cbn [fst snd] in *.
    exists (Ec2 ++ Ec1). rewrite E2, N2, R2, E1, R1, app_length, map_app, D2, D1.
    repeat split; try reflexivity; [now rewrite app_assoc|lia| |exact B2].
    apply Forall2_app; [rewrite <- R1; exact F2|exact F1].
Qed.

(* ---- the skeleton ---- *)
Lemma format_node_inv x single cs own body :
  match single with Some c => node_inv c | None => True end ->
  Forall node_inv cs ->
  engine_order x = x :: kids_order single cs ->
  (forall w k, depths x w k = (if w then k else 0%nat) :: kids_depths single cs w k) ->
  (forall o st, fs_entries (br_st (body o st)) = fs_entries st) ->
  match x with
  | Wrap _ (WStack stk) _ => own = Some stk /\ (forall o st, br_seen (body o st) = false)
  | _ => True
  end ->
  (forall o ro pl es la n2 w k,
     let r := body o (fresh ro pl es la true) in
     let st4 := if br_elide r then elide_short (br_st r) n2 else br_st r in
     detail_clause ro (collect_entry st4 (go_type_string x) (br_red r) w k) x) ->
  forall d o w k st, fs_buf st = [] ->
    let f := format_node (go_type_string x) (match single with Some c => Some (sem c) | None => None end)
                         (List.map sem cs) own body in
    exists Ec, fs_entries (fst (f o d w k st)) = Ec ++ fs_entries st /\
               snd (f o d w k st) = List.length Ec /\
               Forall2 (own_clause d (fs_redout st)) Ec (engine_order x) /\
               List.map fe_depth Ec = depths x w k.
Proof.
  intros Hs Hm Ho Hd Hb Hstk Hown d o w k st B0. cbv zeta. unfold format_node.
  assert (H1 : exists st1 n1 Ec1,
             match match single with Some c => Some (sem c) | None => None end with
             | Some sc => ns_fmt sc false d w (S k) st
             | None => (st, 0%nat)
             end = (st1, n1) /\ n1 = List.length Ec1 /\
             fs_entries st1 = Ec1 ++ fs_entries st /\
             Forall2 (own_clause d (fs_redout st)) Ec1 (match single with Some c => engine_order c | None => [] end) /\
             List.map fe_depth Ec1 = (match single with Some c => depths c w (S k) | None => [] end) /\
             fs_buf st1 = [] /\ fs_redout st1 = fs_redout st).
  { destruct single as [c|].
    - destruct (Hs d false w (S k) st B0) as (Ec1 & E1 & N1 & F1 & D1).
      pose proof (fmt_buf_nil c false d w (S k) st) as B1.
      pose proof (fmt_redout c false d w (S k) st) as R1.
      destruct (ns_fmt (sem c) false d w (S k) st) as [st1 n1]. cbn [fst snd] in *.
      exists st1, n1, Ec1. repeat split; assumption.
    - exists st, 0%nat, []. repeat split; try reflexivity; [constructor|exact B0]. }
  destruct H1 as (st1 & n1 & Ec1 & -> & -> & E1 & F1 & D1 & B1 & R1).
  pose proof (fold_multi_inv d k cs Hm (st1, List.length Ec1) B1) as H2. cbv zeta in H2.
  destruct (fold_left _ (List.map sem cs) (st1, List.length Ec1)) as [st2 n2].
  cbn [fst snd] in H2. destruct H2 as (Ec2 & E2 & -> & F2 & D2 & B2 & R2).
  cbv zeta. rewrite B2.
  change (mkst (fs_redout st2) (fs_plus st2) (fs_entries st2) [] [] (fs_last st2) false d false 0)
    with (fresh (fs_redout st2) (fs_plus st2) (fs_entries st2) (fs_last st2) d).
  set (st3 := fresh (fs_redout st2) (fs_plus st2) (fs_entries st2) (fs_last st2) d).
  set (n2 := (List.length Ec1 + List.length Ec2)%nat).
  pose proof (Hb o st3) as B3.
  pose proof (Hown o (fs_redout st2) (fs_plus st2) (fs_entries st2) (fs_last st2) n2 w k) as HO.
  cbv zeta in HO.
  assert (HO' : d = true ->
                detail_clause (fs_redout st)
                  (collect_entry (if br_elide (body o st3) then elide_short (br_st (body o st3)) n2
                                  else br_st (body o st3)) (go_type_string x) (br_red (body o st3)) w k) x).
  { intros ->. rewrite <- R1, <- R2. exact HO. }
  assert (E3 : fs_entries st3 = fs_entries st2) by reflexivity.
  assert (Hseen : match x with Wrap _ (WStack stk) _ => own = Some stk /\ br_seen (body o st3) = false | _ => True end).
  { destruct x; try exact I. destruct w0; try exact I. destruct Hstk as [A B]. split; [exact A|apply B]. }
  clear HO Hstk. clearbody st3.
  destruct (body o st3) as [bst bred bel bseen]. cbn [br_st br_elide br_red br_seen] in *.
  set (st4 := if bel then elide_short bst n2 else bst) in *.
  assert (E4 : fs_entries st4 = (if bel then mark_first n2 (Ec2 ++ Ec1) else Ec2 ++ Ec1) ++ fs_entries st).
  { subst st4. destruct bel; [unfold elide_short; cbn [fs_entries set_entries]|];
      rewrite B3, E3, E2; cbn [fst]; rewrite E1, app_assoc; [|reflexivity].
    apply mark_first_app. subst n2. rewrite app_length. lia. }
  set (Ek := if bel then mark_first n2 (Ec2 ++ Ec1) else Ec2 ++ Ec1) in *.
  assert (Lk : List.length Ek = n2).
  { subst Ek n2. destruct bel; [rewrite mark_first_length|]; rewrite app_length; lia. }
  assert (Fk : Forall2 (own_clause d (fs_redout st)) Ek (kids_order single cs)).
  { assert (F0 : Forall2 (own_clause d (fs_redout st)) (Ec2 ++ Ec1) (kids_order single cs)).
    { unfold kids_order. apply Forall2_app; [|exact F1]. cbn [fst] in F2. rewrite R1 in F2. exact F2. }
    subst Ek. destruct bel; [now apply mark_first_clause|exact F0]. }
  assert (Dk : List.map fe_depth Ek = kids_depths single cs w k).
  { subst Ek. destruct bel; [rewrite mark_first_depth|]; rewrite map_app, D2, D1; reflexivity. }
  set (e0 := collect_entry st4 (go_type_string x) bred w k) in *.
  assert (T0 : fe_ty e0 = go_type_string x) by apply collect_entry_ty.
  assert (P0 : fe_depth e0 = if w then k else 0%nat) by apply collect_entry_depth.
  assert (Fin : forall e1 st5,
             fe_ty e1 = fe_ty e0 -> fe_head e1 = fe_head e0 -> fe_details e1 = fe_details e0 ->
             fe_red e1 = fe_red e0 -> fe_depth e1 = fe_depth e0 -> fs_entries st5 = fs_entries st4 ->
             stack_clause e1 x ->
             exists Ec, fs_entries (fst (set_buf (set_entries st5 (e1 :: fs_entries st5)) [], S n2)) = Ec ++ fs_entries st /\
                        snd (set_buf (set_entries st5 (e1 :: fs_entries st5)) [], S n2) = List.length Ec /\
                        Forall2 (own_clause d (fs_redout st)) Ec (engine_order x) /\
                        List.map fe_depth Ec = depths x w k).
  { intros e1 st5 X1 X2 X3 X4 X5 X6 X7. exists (e1 :: Ek).
    cbn [fst snd set_buf set_entries fs_entries]. rewrite X6, E4, Ho, Hd. cbn [List.length List.map].
    rewrite Lk, Dk, X5, P0. repeat split; try reflexivity.
    constructor; [|exact Fk]. split; [congruence|]. split; [exact X7|].
    intro Hdd. specialize (HO' Hdd). unfold detail_clause in *. destruct x; try exact I.
    destruct (wrap_detail_writes w0); [|exact I]. rewrite X2, X3, X4. exact HO'. }
  destruct bseen.
  { apply Fin; try reflexivity. unfold stack_clause. destruct x; try exact I. destruct w0; try exact I.
    destruct Hseen as [_ X]. discriminate X. }
  destruct own as [stk|].
  - pose proof (elide_shared_firstn (fs_last st4) stk) as ES.
    destruct (elide_shared (fs_last st4) stk) as [s' el]. cbn [fst] in ES.
    apply Fin; try reflexivity. unfold stack_clause. destruct x; try exact I. destruct w0; try exact I.
    destruct Hseen as [X _]. injection X as <-. cbn [fe_stack]. destruct ES as (n & -> & Hn). now exists n.
  - apply Fin; try reflexivity. unfold stack_clause. destruct x; try exact I. destruct w0; try exact I.
    destruct Hseen as [X _]. discriminate X.
Qed.

(* ---- the own entry of a wrapper with a detail ---- *)
Lemma collect_detail_entry ro pl es la ws ty red w k :
  collect_entry (fold_left st_write ws (fresh_detail ro pl es la)) ty red w k =
  mkentry ty (red && ro) [] (if red then shown ro (dlayout ws) else dlayout ws) false None false
          (if w then k else 0%nat).
Proof.
  rewrite (fold_st_write_dw ws _ ([], false, 0%nat)) by reflexivity.
  unfold dlayout. destruct (fold_left dw ws ([], false, 0%nat)) as [[bf ne] nn].
  destruct red, ro; reflexivity.
Qed.

Lemma wrap_own_clause i w c (alt : body_res) ro pl es la n2 wd k :
  let r := match wrap_body w (fresh ro pl es la true) with
           | Some (st1, next_nil, red) => mkbody st1 red next_nil false
           | None => alt
           end in
  let st4 := if br_elide r then elide_short (br_st r) n2 else br_st r in
  detail_clause ro (collect_entry st4 (go_type_string (Wrap i w c)) (br_red r) wd k) (Wrap i w c).
Proof.
  cbv zeta. unfold detail_clause. destruct (wrap_detail_writes w) as [ws|] eqn:E; [|exact I].
  rewrite (wrap_body_detail _ _ _ _ _ _ E). cbn [br_elide br_st br_red].
  rewrite collect_detail_entry. cbn [fe_head fe_details fe_red]. unfold wrap_shown.
  repeat split.
Qed.

(* ---- the induction ---- *)
Ltac fs_case2 :=
  match goal with
  | |- context [format_simple ?s ?t ?c] =>
    let HF := fresh "HF" in
    pose proof (format_simple_se s t c) as HF;
    destruct (format_simple s t c); exact HF
  end.

Lemma sem_inv e : node_inv e.
Proof.
  induction e using err_ind'; intros dd oo ww kk st B0.
  - (* Leaf *)
    cbn [sem ns_fmt].
    apply (format_node_inv (Leaf i k) None []); try exact B0; try exact I;
      [constructor|reflexivity|reflexivity| |intros; exact I].
    intros o' st'. destruct k as [| | | | | |m url det| | | | |]; try apply default_body_se.
    + destruct (negb o'); [cbn [br_st set_last fs_entries]; apply fundamental_format_se|]. fs_case2.
    + unfold body_safe. cbn [br_st]. apply sp_print_se.
    + unfold body_safe. cbn [br_st]. rewrite if_detail_se; [apply sp_print_se|].
      intros s0. destruct url, det; se.
  - (* Wrap *)
    cbn [sem ns_fmt].
    apply (format_node_inv (Wrap i w e) (Some e) []); try exact B0;
      [exact IHe|constructor|reflexivity|reflexivity| | |].
    + intros o' st'. pose proof (wrap_body_se w st') as HW.
      destruct (wrap_body w st') as [[[st1 nn] red]|]; [exact HW|].
      destruct w; try apply default_body_se; fs_case2.
    + destruct w; try exact I. split; [reflexivity|]. intros o' st'. reflexivity.
    + intros o' ro pl es la n2 wd k1. apply wrap_own_clause.
  - (* Second *)
    cbn [sem ns_fmt].
    apply (format_node_inv (Second i e1 e2) (Some e1) []); try exact B0; try exact I;
      [exact IHe1|constructor|reflexivity|reflexivity| |intros; exact I].
    intros o' st'. unfold body_safe. cbn [br_st]. apply if_detail_se. intros s0. apply sp_print_se.
  - (* Barrier *)
    cbn [sem ns_fmt].
    apply (format_node_inv (Barrier i m e) None []); try exact B0; try exact I;
      [constructor|reflexivity|reflexivity| |intros; exact I].
    intros o' st'. unfold body_safe. cbn [br_st].
    rewrite if_detail_se; [apply sp_print_se|]. intros s0. apply sp_print_se.
  - (* Multi *)
    assert (EO : engine_order (Multi i k cs) = Multi i k cs :: kids_order None cs).
    { cbn [engine_order]. unfold kids_order. now rewrite app_nil_r. }
    assert (ED : forall w k1, depths (Multi i k cs) w k1 = (if w then k1 else 0%nat) :: kids_depths None cs w k1).
    { intros. cbn [depths]. unfold kids_depths. now rewrite app_nil_r. }
    destruct k; cbn [sem ns_fmt].
    + apply (format_node_inv (Multi i MJoin cs) None cs); try exact B0; try exact I;
        [exact H|exact EO|exact ED| |intros; exact I].
      intros o' st'. unfold body_safe. cbn [br_st].
      rewrite fold_left_snd_se; [reflexivity|].
      intros acc x. cbn [snd]. rewrite sp_print_se.
      destruct (fst acc); [reflexivity|apply sp_print_se].
    + apply (format_node_inv (Multi i MStdJoin cs) None cs); try exact B0; try exact I;
        [exact H|exact EO|exact ED| |intros; exact I].
      intros o' st'. apply default_body_se.
    + apply (format_node_inv (Multi i (MFmtWraps msg) cs) None cs); try exact B0; try exact I;
        [exact H|exact EO|exact ED| |intros; exact I].
      intros o' st'. apply default_body_se.
  - (* OLeaf *)
    assert (EO : engine_order (OLeaf i m d cs) = OLeaf i m d cs :: kids_order None cs).
    { cbn [engine_order]. unfold kids_order. now rewrite app_nil_r. }
    assert (ED : forall w k1, depths (OLeaf i m d cs) w k1 = (if w then k1 else 0%nat) :: kids_depths None cs w k1).
    { intros. cbn [depths]. unfold kids_depths. now rewrite app_nil_r. }
    cbn [sem ns_fmt].
    apply (format_node_inv (OLeaf i m d cs) None cs); try exact B0; try exact I;
      [exact H|exact EO|exact ED| |intros; exact I].
    intros o' st'. unfold body_safe. cbn [br_st].
    rewrite if_detail_se; [apply sp_print_se|]. intros s0. apply opaque_details_se.
  - (* OWrap *)
    cbn [sem ns_fmt].
    apply (format_node_inv (OWrap i p d mt e) (Some e) []); try exact B0; try exact I;
      [exact IHe|constructor|reflexivity|reflexivity| |intros; exact I].
    intros o' st'. unfold body_safe. cbn [br_st].
    rewrite if_detail_se; [|intros s0; apply opaque_details_se].
    destruct p; [reflexivity|apply sp_print_se].
Qed.

(* ================================================================== *)
(* 5. the verbose rendering of an error                                 *)
(* ================================================================== *)
(* the entries of the engine run behind %+v (redactable output [red]) *)
Definition ventries (e : err) (red : bool) : list fentry :=
  fs_entries (fst (ns_fmt (sem e) true true false 0%nat (st_init red true))).

Lemma final_verbose_ventries e red : final_verbose (sem e) red = format_entries red (ventries e red).
Proof.
  unfold final_verbose, ventries.
  destruct (ns_fmt (sem e) true true false 0%nat (st_init red true)) as [st n]. reflexivity.
Qed.

(* the engine order is a rearrangement of the visit order ... *)
Lemma engine_order_perm e : Permutation (engine_order e) (visit_all e).
Proof.
  induction e using err_ind'; cbn [engine_order visit_all]; try (constructor; assumption);
    try (constructor; constructor).
  - constructor. induction H as [|c cs Hc Hcs IH]; cbn [fold_right flat_map]; [constructor|].
    eapply Permutation_trans; [apply Permutation_app_comm|]. now apply Permutation_app.
  - constructor. induction H as [|c cs Hc Hcs IH]; cbn [fold_right flat_map]; [constructor|].
    eapply Permutation_trans; [apply Permutation_app_comm|]. now apply Permutation_app.
Qed.

Lemma engine_order_length e : List.length (engine_order e) = List.length (visit_all e).
Proof. apply Permutation_length, engine_order_perm. Qed.

(* ... and IS the visit order when no node has two or more branches *)
Fixpoint chainlike (e : err) : bool :=
  match e with
  | Wrap _ _ c | Second _ c _ | OWrap _ _ _ _ c => chainlike c
  | Multi _ _ cs | OLeaf _ _ _ cs =>
    match cs with [] => true | [c] => chainlike c | _ => false end
  | _ => true
  end.

Lemma engine_order_chainlike e : chainlike e = true -> engine_order e = visit_all e.
Proof.
  induction e using err_ind'; cbn [chainlike engine_order visit_all]; intro Hc; try reflexivity;
    try (f_equal; auto; fail).
  - destruct cs as [|c [|c2 cs]]; [reflexivity| |discriminate].
    inversion H as [|? ? Hx _]; subst. cbn [fold_right flat_map app]. rewrite app_nil_r. f_equal. auto.
  - destruct cs as [|c [|c2 cs]]; [reflexivity| |discriminate].
    inversion H as [|? ? Hx _]; subst. cbn [fold_right flat_map app]. rewrite app_nil_r. f_equal. auto.
Qed.

(* THE ENTRIES: one per layer, in engine order; each has the Go type of its layer, the
   depth of its layer, and (library wrappers with a detail) an empty head and the detail text *)
Theorem verbose_entries_spec e red :
  Forall2 (own_clause true red) (ventries e red) (engine_order e) /\
  List.map fe_depth (ventries e red) = depths e false 0%nat.
Proof.
  destruct (sem_inv e true true false 0%nat (st_init red true) eq_refl) as (Ec & E & _ & F & D).
  unfold ventries. rewrite E. cbn [st_init fs_entries fs_redout] in *. rewrite app_nil_r. split; assumption.
Qed.

Lemma Forall2_length' {A B} (R : A -> B -> Prop) l l' : Forall2 R l l' -> List.length l = List.length l'.
Proof. induction 1; cbn [List.length]; congruence. Qed.

Lemma Forall2_nth {A B} (R : A -> B -> Prop) l l' :
  Forall2 R l l' -> forall i y, nth_error l' i = Some y -> exists x, nth_error l i = Some x /\ R x y.
Proof.
  induction 1 as [|x y l l' Hxy H IH]; intros i z Hz; [destruct i; discriminate|].
  destruct i as [|i]; cbn [nth_error] in *.
  - injection Hz as <-. now exists x.
  - now apply IH.
Qed.

Lemma Forall2_map_eq {A B C} (R : A -> B -> Prop) (f : A -> C) (g : B -> C) l l' :
  (forall a b, R a b -> f a = g b) -> Forall2 R l l' -> List.map f l = List.map g l'.
Proof. intros Hfg. induction 1; cbn [List.map]; [reflexivity|]. f_equal; auto. Qed.

Lemma ventries_length e red : List.length (ventries e red) = List.length (visit_all e).
Proof.
  rewrite <- engine_order_length. apply (Forall2_length' _ _ _ (proj1 (verbose_entries_spec e red))).
Qed.

Lemma ventries_types e red :
  List.map fe_ty (ventries e red) = List.map go_type_string (engine_order e).
Proof.
  apply (Forall2_map_eq (own_clause true red)); [|apply verbose_entries_spec].
  intros a b [H _]. exact H.
Qed.

Lemma ventries_nonempty e red : ventries e red <> [].
Proof.
  intro H. pose proof (ventries_length e red) as L. rewrite H in L.
  destruct e; cbn [visit_all List.length] in L; discriminate.
Qed.

(* the 'Error types' items depend on the types only *)
Fixpoint type_items_of (tys : list str) (k : N) : list str :=
  match tys with
  | [] => []
  | ty :: r => (lit " (" ++ dec_of_N k ++ lit ") " ++ ty) :: type_items_of r (k + 1)
  end.

Lemma type_items_types es : forall k, type_items es k = type_items_of (List.map fe_ty es) k.
Proof. induction es as [|fe r IH]; intro k; cbn [type_items type_items_of List.map]; [reflexivity|]. now rewrite IH. Qed.

(* (1) THE LAYOUT of %+v, for every error and both output modes *)
Theorem verbose_layout e red :
  final_verbose (sem e) red =
  single_line red (ventries e red) [] ++
  nl :: join [nl] (entry_lines red (ventries e red) 1) ++
  nl :: lit "Error types:" ++
  List.concat (type_items_of (List.map go_type_string (engine_order e)) 1).
Proof.
  rewrite final_verbose_ventries, <- (ventries_types e red), <- type_items_types.
  pose proof (ventries_nonempty e red) as Hne.
  destruct (ventries e red) as [|fe r]; [contradiction|]. apply format_entries_layout.
Qed.

Corollary verbose_layout_counts e red :
  List.length (entry_lines red (ventries e red) 1) = List.length (visit_all e) /\
  List.length (type_items_of (List.map go_type_string (engine_order e)) 1) = List.length (visit_all e).
Proof.
  split; [rewrite entry_lines_length; apply ventries_length|].
  rewrite <- (ventries_types e red), <- type_items_types, type_items_length. apply ventries_length.
Qed.

(* the plain rendering fmt.Sprintf("%+v", errors.Formattable(e)) *)
Corollary plain_verbose_layout e :
  fmt_plain_verbose e =
  single_line false (ventries e false) [] ++
  nl :: join [nl] (entry_lines false (ventries e false) 1) ++
  nl :: lit "Error types:" ++
  List.concat (type_items_of (List.map go_type_string (engine_order e)) 1).
Proof. apply verbose_layout. Qed.

(* the layer at position p of the engine order: its entry, and where it is in the rendering *)
Theorem layer_entry e red p x :
  nth_error (engine_order e) p = Some x ->
  exists fe, nth_error (ventries e red) p = Some fe /\
             own_clause true red fe x /\
             nth_error (List.map fe_depth (ventries e red)) p = nth_error (depths e false 0%nat) p /\
             infix_of (entry_text red (N.of_nat (S p)) fe) (final_verbose (sem e) red) /\
             infix_of (lit " (" ++ dec_of_N (N.of_nat (S p)) ++ lit ") " ++ go_type_string x)
                      (final_verbose (sem e) red).
Proof.
  intro Hx. destruct (verbose_entries_spec e red) as [F D].
  destruct (Forall2_nth _ _ _ F p x Hx) as (fe & Hfe & Hc).
  exists fe. split; [exact Hfe|]. split; [exact Hc|]. split; [now rewrite D|].
  rewrite final_verbose_ventries.
  destruct (format_entries_shows_entry red _ p fe Hfe) as [A B]. split; [exact A|].
  unfold type_item in B. destruct Hc as [T _]. now rewrite T in B.
Qed.

(* ---- printEntry of an entry with an empty head ---- *)
Lemma print_entry_nohead red fe :
  fe_head fe = [] ->
  print_entry red fe =
  (match fe_details fe with
   | [] => []
   | c :: _ => (if c =? nl then [] else [sp]) ++ out_bytes red fe (fe_details fe)
   end) ++ entry_stack_part fe.
Proof. intro H. rewrite print_entry_parts. unfold entry_head_part, entry_details_part. now rewrite H. Qed.

(* (3) a library wrapper's own detail is in its own entry: exact form *)
Theorem wrapper_detail_in_own_entry e red p i w c ws :
  nth_error (engine_order e) p = Some (Wrap i w c) ->
  wrap_detail_writes w = Some ws ->
  exists fe, nth_error (ventries e red) p = Some fe /\
             fe_ty fe = go_type_string (Wrap i w c) /\
             fe_head fe = [] /\
             fe_details fe = wrap_shown w red (dlayout ws) /\
             fe_red fe = wrap_red w && red /\
             infix_of (entry_text red (N.of_nat (S p)) fe) (final_verbose (sem e) red) /\
             entry_text red (N.of_nat (S p)) fe =
             entry_label (N.of_nat (S p)) fe ++
             (match wrap_shown w red (dlayout ws) with
              | [] => []
              | c0 :: _ =>
                (if c0 =? nl then [] else [sp]) ++
                (if wrap_red w || negb red then wrap_shown w red (dlayout ws)
                 else escape_bytes (wrap_shown w red (dlayout ws)))
              end) ++ entry_stack_part fe.
Proof.
  intros Hx Hw. destruct (layer_entry e red p _ Hx) as (fe & Hfe & (T & _ & Dc) & _ & I1 & _).
  specialize (Dc eq_refl). unfold detail_clause in Dc. rewrite Hw in Dc. destruct Dc as (H1 & H2 & H3).
  exists fe. repeat split; try assumption.
  unfold entry_text. rewrite (print_entry_nohead red fe H1), H2.
  destruct (wrap_shown w red (dlayout ws)) as [|c0 t] eqn:E; [reflexivity|].
  unfold out_bytes. rewrite H3. destruct (wrap_red w), red; reflexivity.
Qed.

(* the stack trace of a withStack layer is in its own entry *)
Theorem stack_in_own_entry e red p i stk c :
  nth_error (engine_order e) p = Some (Wrap i (WStack stk) c) ->
  exists fe n, nth_error (ventries e red) p = Some fe /\
               fe_stack fe = Some (firstn n stk) /\ (stk <> [] -> (1 <= n)%nat) /\
               entry_stack_part fe =
               nl :: lit "  -- stack trace:" ++ replace_nl (print_stack (firstn n stk)) detail_sep ++
               (if fe_elided fe then detail_sep ++ lit "[...repeated from below...]" else []).
Proof.
  intros Hx. destruct (layer_entry e red p _ Hx) as (fe & Hfe & (_ & S & _) & _).
  destruct S as (n & S1 & S2). exists fe, n. repeat split; try assumption.
  unfold entry_stack_part. now rewrite S1.
Qed.

(* ================================================================== *)
(* 6. the detail texts, kind by kind                                    *)
(* ================================================================== *)
(* a print call whose arguments are all literals / safe strings, ASCII: the bytes themselves *)
Fixpoint safe_text (ps : list piece) : option str :=
  match ps with
  | [] => Some []
  | PLit a :: r | PSafe a :: r => match safe_text r with Some b => Some (a ++ b) | None => None end
  | _ => None
  end.

Lemma fold_safe_pieces ps : forall v p t,
  safe_text ps = Some t ->
  fold_left print_piece ps (mkbuf v p SafeEscaped false) = mkbuf v (p ++ t) SafeEscaped false.
Proof.
  induction ps as [|q ps IH]; intros v p t H; cbn [safe_text] in H.
  - injection H as <-. now rewrite app_nil_r.
  - destruct q as [a|a|a|a]; try discriminate;
      (destruct (safe_text ps) as [b|] eqn:E; [|discriminate]); injection H as <-;
      cbn [fold_left]; [rewrite print_lit_step|rewrite print_safe_step];
      rewrite (IH _ _ b eq_refl), <- app_assoc; reflexivity.
Qed.

Lemma sprint_safe_pieces ps t :
  safe_text ps = Some t -> t <> [] -> ascii t = true -> sprint_pieces ps = t.
Proof.
  intros H Hne Ha. unfold sprint_pieces, print_pieces.
  change (set_mode buf_empty SafeEscaped) with (mkbuf [] [] SafeEscaped false).
  rewrite (fold_safe_pieces _ _ _ _ H). cbn [app]. now apply take_pend.
Qed.

Lemma nn_after_plain s : forall n, no_nl s = true -> nn_after n s = match s with [] => n | _ => 0%nat end.
Proof.
  induction s as [|c r IH]; intros n H; [reflexivity|].
  cbn [no_nl forallb] in H. apply andb_true_iff in H as [Hc Hr]. apply negb_true_iff in Hc.
  cbn [nn_after]. rewrite Hc. rewrite IH by exact Hr. destruct r; reflexivity.
Qed.

(* the first write of a line of at least two bytes *)
Lemma dw_first_line a :
  no_nl a = true -> (2 <= List.length a)%nat -> dw ([], false, 0%nat) a = (a, true, 0%nat).
Proof.
  intros Hn Hl. unfold dw. cbn [app]. rewrite dfirst_plain by exact Hn.
  destruct a as [|c [|c2 r]]; cbn [List.length] in Hl; try lia.
  pose proof Hn as Hn'. cbn [no_nl forallb] in Hn'. apply andb_true_iff in Hn' as [Hc Hr].
  pose proof Hr as Hr'. apply andb_true_iff in Hr' as [Hc2 _]. apply negb_true_iff in Hc, Hc2.
  cbn [all_nl forallb nnf]. rewrite Hc, Hc2. cbn [andb negb].
  rewrite nn_after_plain by exact Hr. reflexivity.
Qed.

Lemma dlayout_line a : no_nl a = true -> dlayout [a] = a.
Proof. apply dlayout_plain. Qed.

(* a line, then a print call that starts with a newline: the second line gets the margin *)
Lemma dlayout_two_lines a t :
  no_nl a = true -> (2 <= List.length a)%nat -> t <> [] -> no_nl t = true ->
  dlayout [a; nl :: t] = a ++ detail_sep ++ t.
Proof.
  intros Hn Hl Hne Ht. unfold dlayout. cbn [fold_left]. rewrite dw_first_line by assumption.
  unfold dw. cbn [fst]. cbn [dind]. rewrite N.eqb_refl. now rewrite dind1_plain.
Qed.

Lemma dec_of_N_nonempty n : dec_of_N n <> [].
Proof.
  unfold dec_of_N. cbn [dec_digits].
  destruct (n / 10 =? 0); [discriminate|apply dec_digits_nonempty; discriminate].
Qed.

Lemma dec_of_Z_unsafe_ok z : unsafe_ok (dec_of_Z z) = true.
Proof.
  destruct (dec_of_Z_ok z) as [A B]. unfold unsafe_ok, nonempty. rewrite A, B, !andb_true_r.
  destruct z as [|p|p]; cbn [dec_of_Z]; [reflexivity| |reflexivity].
  pose proof (dec_of_N_nonempty (N.pos p)). destruct (dec_of_N (N.pos p)); [contradiction|reflexivity].
Qed.

Lemma grpc_code_name_ok c : grpc_code_name c <> [] /\ ascii (grpc_code_name c) = true /\ no_nl (grpc_code_name c) = true.
Proof.
  assert (D : forall n, lit "Code(" ++ dec_of_N n ++ lit ")" <> [] /\
                        ascii (lit "Code(" ++ dec_of_N n ++ lit ")") = true /\
                        no_nl (lit "Code(" ++ dec_of_N n ++ lit ")") = true).
  { intro n. destruct (digits_ok_direct _ (dec_of_N_ok n)) as [A B].
    rewrite !ascii_app, !no_nl_app, A, B. repeat split; discriminate. }
  unfold grpc_code_name.
  repeat match goal with |- context [match ?x with _ => _ end] => destruct x end;
    solve [repeat split; discriminate | apply D].
Qed.

(* ---- the redactable detail text of each kind (what Print/Printf write), under the
        stated regularity conditions; WITHOUT conditions the text is [dlayout] of the
        writes of [wrap_detail_writes] ---- *)
Lemma detail_text_stack stk ws :
  wrap_detail_writes (WStack stk) = Some ws -> dlayout ws = lit "attached stack trace".
Proof. intro H. injection H as <-. vm_compute. reflexivity. Qed.

Lemma detail_text_assert ws :
  wrap_detail_writes WAssert = Some ws -> dlayout ws = lit "assertion failure".
Proof. intro H. injection H as <-. vm_compute. reflexivity. Qed.

Lemma detail_text_hint h ws :
  wrap_detail_writes (WHint h) = Some ws -> no_nl h = true -> dlayout ws = h.
Proof. intros H Hn. injection H as <-. now apply dlayout_plain. Qed.

Lemma detail_text_detail d ws :
  wrap_detail_writes (WDetail d) = Some ws -> no_nl d = true -> dlayout ws = d.
Proof. intros H Hn. injection H as <-. now apply dlayout_plain. Qed.

(* several lines: each further line gets the margin "  | " *)
Lemma detail_text_hint_lines c r ws :
  wrap_detail_writes (WHint (c :: r)) = Some ws -> (c =? nl) = false -> tidy (c :: r) = true ->
  dlayout ws = replace_nl (c :: r) detail_sep.
Proof. intros H Hc Ht. injection H as <-. now apply dlayout_tidy. Qed.

Lemma detail_text_detail_lines c r ws :
  wrap_detail_writes (WDetail (c :: r)) = Some ws -> (c =? nl) = false -> tidy (c :: r) = true ->
  dlayout ws = replace_nl (c :: r) detail_sep.
Proof. intros H Hc Ht. injection H as <-. now apply dlayout_tidy. Qed.

Lemma detail_text_telemetry keys ws :
  wrap_detail_writes (WTelemetry keys) = Some ws ->
  ascii (join [sp] keys) = true -> no_nl (join [sp] keys) = true ->
  dlayout ws = lit "keys: [" ++ join [sp] keys ++ lit "]".
Proof.
  intros H Ha Hn. injection H as <-.
  rewrite (sprint_safe_pieces _ (lit "keys: [" ++ join [sp] keys ++ lit "]")).
  - apply dlayout_plain. rewrite !no_nl_app, Hn. reflexivity.
  - cbn [safe_text]. now rewrite app_nil_r.
  - discriminate.
  - rewrite !ascii_app, Ha. reflexivity.
Qed.

Lemma detail_text_domain d ws :
  wrap_detail_writes (WDomain d) = Some ws -> d <> [] -> ascii d = true -> no_nl d = true ->
  dlayout ws = d.
Proof.
  intros H Hne Ha Hn. injection H as <-. rewrite sprint_safe_ascii by exact Ha. now apply dlayout_plain.
Qed.

Lemma detail_text_grpc code ws :
  wrap_detail_writes (WGrpc code) = Some ws -> dlayout ws = lit "gRPC code: " ++ grpc_code_name code.
Proof.
  intro H. injection H as <-. destruct (grpc_code_name_ok code) as (Hne & Ha & Hn).
  rewrite (sprint_safe_pieces _ (lit "gRPC code: " ++ grpc_code_name code)).
  - apply dlayout_plain. rewrite no_nl_app, Hn. reflexivity.
  - cbn [safe_text]. now rewrite app_nil_r.
  - discriminate.
  - rewrite ascii_app, Ha. reflexivity.
Qed.

Lemma sprint_lit_unsafe l s :
  l <> [] -> ascii l = true -> unsafe_ok s = true ->
  sprint_pieces [PLit l; PUnsafe s] = l ++ m_start ++ s ++ m_end.
Proof.
  intros Hne Ha Hu. unfold sprint_pieces, print_pieces. cbn [fold_left].
  change (set_mode buf_empty SafeEscaped) with (mkbuf [] [] SafeEscaped false).
  rewrite print_lit_step. cbn [app]. rewrite print_unsafe_step by assumption. cbn [app].
  replace (l ++ m_start ++ s ++ m_end) with ((l ++ m_start ++ s) ++ m_end) by now rewrite <- !app_assoc.
  apply take_end.
Qed.

Lemma detail_text_http code ws :
  wrap_detail_writes (WHTTP code) = Some ws ->
  dlayout ws = lit "http code: " ++ m_start ++ dec_of_Z code ++ m_end /\
  strip_markers (dlayout ws) = lit "http code: " ++ dec_of_Z code.
Proof.
  intro H. injection H as <-. pose proof (dec_of_Z_unsafe_ok code) as Hu.
  destruct (unsafe_ok_parts _ Hu) as (Hne & Ha & Hn).
  rewrite sprint_lit_unsafe by (discriminate || reflexivity || assumption).
  rewrite dlayout_plain by (rewrite !no_nl_app, Hn; reflexivity). split; [reflexivity|].
  replace (lit "http code: " ++ m_start ++ dec_of_Z code ++ m_end)
    with (lit "http code: " ++ m_start ++ dec_of_Z code ++ m_end ++ []) by now rewrite app_nil_r.
  rewrite strip_region by (reflexivity || assumption).
  cbn [strip_markers tokenize filter untok flat_map]. now rewrite app_nil_r.
Qed.

Lemma detail_text_issue url det ws :
  wrap_detail_writes (WIssueLink url det) = Some ws ->
  ascii url = true -> no_nl url = true -> ascii det = true -> no_nl det = true ->
  dlayout ws =
  match url, det with
  | [], [] => []
  | _, [] => lit "issue: " ++ url
  | [], _ => lit "detail: " ++ det
  | _, _ => lit "issue: " ++ url ++ detail_sep ++ lit "detail: " ++ det
  end.
Proof.
  intros H Hua Hun Hda Hdn. injection H as <-.
  destruct url as [|u url], det as [|x det]; cbn [app].
  - reflexivity.
  - rewrite (sprint_safe_pieces _ (lit "detail: " ++ x :: det)).
    + apply dlayout_plain. rewrite no_nl_app, Hdn. reflexivity.
    + cbn [safe_text app]. now rewrite app_nil_r.
    + discriminate.
    + rewrite ascii_app, Hda. reflexivity.
  - rewrite (sprint_safe_pieces _ (lit "issue: " ++ u :: url)).
    + apply dlayout_plain. rewrite no_nl_app, Hun. reflexivity.
    + cbn [safe_text]. now rewrite app_nil_r.
    + discriminate.
    + rewrite ascii_app, Hua. reflexivity.
  - rewrite (sprint_safe_pieces _ (lit "issue: " ++ u :: url)).
    2:{ cbn [safe_text]. now rewrite app_nil_r. }
    2:{ discriminate. }
    2:{ rewrite ascii_app, Hua. reflexivity. }
    rewrite (sprint_safe_pieces _ (nl :: lit "detail: " ++ x :: det)).
    2:{ cbn [safe_text app]. now rewrite app_nil_r. }
    2:{ discriminate. }
    2:{ change (nl :: lit "detail: " ++ x :: det) with ([nl] ++ lit "detail: " ++ x :: det).
        rewrite !ascii_app, Hda. reflexivity. }
    rewrite dlayout_two_lines.
    + now rewrite <- !app_assoc.
    + rewrite no_nl_app, Hun. reflexivity.
    + rewrite app_length. change (List.length (lit "issue: ")) with 7%nat. lia.
    + discriminate.
    + rewrite no_nl_app, Hdn. reflexivity.
Qed.

(* ---- "(k) <detail>" is in the rendering ---- *)
Lemma entry_label_paren k fe : exists pre, entry_label k fe = pre ++ lit "(" ++ dec_of_N k ++ lit ")".
Proof.
  unfold entry_label. destruct (k =? 1) eqn:E.
  - apply N.eqb_eq in E. subst k. exists []. reflexivity.
  - exists (indent_for (fe_depth fe) ++ lit "Wraps: "). rewrite <- !app_assoc. reflexivity.
Qed.

Theorem wrapper_detail_visible e red p i w c ws c0 t :
  nth_error (engine_order e) p = Some (Wrap i w c) ->
  wrap_detail_writes w = Some ws ->
  wrap_shown w red (dlayout ws) = c0 :: t -> (c0 =? nl) = false ->
  infix_of (lit "(" ++ dec_of_N (N.of_nat (S p)) ++ lit ") " ++
            (if wrap_red w || negb red then c0 :: t else escape_bytes (c0 :: t)))
           (final_verbose (sem e) red).
Proof.
  intros Hx Hw Ht Hc.
  destruct (wrapper_detail_in_own_entry e red p i w c ws Hx Hw) as (fe & _ & _ & _ & _ & _ & I1 & ET).
  rewrite ET, Ht, Hc in I1.
  destruct (entry_label_paren (N.of_nat (S p)) fe) as [pre Hpre]. rewrite Hpre in I1.
  destruct I1 as (a & b & ->). unfold infix_of.
  exists (a ++ pre), (entry_stack_part fe ++ b).
  change (lit ") ") with (lit ")" ++ [sp]). rewrite <- !app_assoc. reflexivity.
Qed.

(* ================================================================== *)
(* 7. examples: a 6-layer error with a join                             *)
(* ================================================================== *)
Definition ex_leaf (i : positive) (s : string) : err := Leaf i (LErrString (lit s)).

Definition ex_tree : err :=
  Wrap 1%positive (WHint (lit "h1" ++ nl :: lit "h2"))
    (Wrap 2%positive (WTelemetry [lit "k1"; lit "k2"])
      (Multi 3%positive MJoin
         [Wrap 4%positive (WDomain (lit "dom")) (ex_leaf 5%positive "x");
          Leaf 6%positive LDeadline])).

Example ex_tree_verbose :
  fmt_plain_verbose ex_tree = lit "x
(1) h1
  | h2
Wraps: (2) keys: [k1 k2]
Wraps: (3) x
  | context deadline exceeded
  └─ Wraps: (4) context deadline exceeded
  └─ Wraps: (5) dom
    └─ Wraps: (6) x
Error types: (1) *hintdetail.withHint (2) *telemetrykeys.withTelemetry (3) *join.joinError (4) context.deadlineExceededError (5) *domains.withDomain (6) *errors.errorString".
Proof. vm_compute. reflexivity. Qed.

Example ex_tree_lines :
  entry_lines false (ventries ex_tree false) 1 =
  [ lit "(1) h1" ++ nl :: lit "  | h2";
    lit "Wraps: (2) keys: [k1 k2]";
    lit "Wraps: (3) x" ++ nl :: lit "  | context deadline exceeded";
    lit "  └─ Wraps: (4) context deadline exceeded";
    lit "  └─ Wraps: (5) dom";
    lit "    └─ Wraps: (6) x" ] /\
  single_line false (ventries ex_tree false) [] = lit "x" /\
  List.map fe_depth (ventries ex_tree false) = [0; 0; 0; 3; 3; 4]%nat.
Proof. vm_compute. repeat split. Qed.

(* the order of the entries (and of the 'Error types' line) is NOT the visit order of
   Report.visit_all as soon as a node has two branches: the branches come last to first *)
Example verbose_order_not_visit_order :
  List.map go_type_string (engine_order ex_tree) =
  [ lit "*hintdetail.withHint"; lit "*telemetrykeys.withTelemetry"; lit "*join.joinError";
    lit "context.deadlineExceededError"; lit "*domains.withDomain"; lit "*errors.errorString" ] /\
  List.map go_type_string (visit_all ex_tree) =
  [ lit "*hintdetail.withHint"; lit "*telemetrykeys.withTelemetry"; lit "*join.joinError";
    lit "*domains.withDomain"; lit "*errors.errorString"; lit "context.deadlineExceededError" ] /\
  List.map fe_ty (ventries ex_tree false) <> List.map go_type_string (visit_all ex_tree).
Proof. split; [|split]; [vm_compute; reflexivity|vm_compute; reflexivity|vm_compute; discriminate]. Qed.

(* instances of the general theorems *)
Example ex_tree_hint_visible :
  infix_of (lit "(1) h1" ++ nl :: lit "  | h2") (fmt_plain_verbose ex_tree).
Proof.
  assert (T : wrap_shown (WHint (lit "h1" ++ nl :: lit "h2")) false (dlayout [lit "h1" ++ nl :: lit "h2"])
              = 104 :: lit "1" ++ nl :: lit "  | h2") by (vm_compute; reflexivity).
  exact (wrapper_detail_visible ex_tree false 0 1%positive _ _ _ _ _ eq_refl eq_refl T eq_refl).
Qed.

Example ex_tree_domain_visible :
  infix_of (lit "(5) dom") (fmt_plain_verbose ex_tree).
Proof.
  assert (T : wrap_shown (WDomain (lit "dom")) false (dlayout [sprint_pieces [PSafe (lit "dom")]]) = lit "dom")
    by (vm_compute; reflexivity).
  exact (wrapper_detail_visible ex_tree false 4 4%positive _ _ _ _ _ eq_refl eq_refl T eq_refl).
Qed.

(* the redactable rendering: hints and details are unsafe (enclosed in markers line by line) *)
Example ex_tree_red_verbose :
  fmt_red_verbose ex_tree = lit "‹x›
(1) ‹h1›
‹  | h2›
Wraps: (2) keys: [k1 k2]
Wraps: (3) ‹x›
  | context deadline exceeded
  └─ Wraps: (4) context deadline exceeded
  └─ Wraps: (5) dom
    └─ Wraps: (6) ‹x›
Error types: (1) *hintdetail.withHint (2) *telemetrykeys.withTelemetry (3) *join.joinError (4) context.deadlineExceededError (5) *domains.withDomain (6) *errors.errorString".
Proof. vm_compute. reflexivity. Qed.

(* the other kinds, in one chain *)
Definition ex_chain : err :=
  Wrap 1%positive (WIssueLink (lit "http://x/1") (lit "see there"))
    (Wrap 2%positive (WHTTP 404%Z)
      (Wrap 3%positive (WGrpc 5)
        (Wrap 4%positive WAssert
          (Wrap 5%positive (WSafeDetails [lit "sd1"; lit "sd2"])
            (Wrap 6%positive (WContext [(lit "k", TVStr (lit "v")); (lit "n", TVInt 7%Z)] None)
              (Wrap 7%positive (WDetail (lit "d"))
                (Wrap 8%positive (WStack [mkframe 1 (lit "main.f") (lit "/m.go") 10])
                  (ex_leaf 9%positive "boom")))))))).

Example ex_chain_verbose :
  fmt_plain_verbose ex_chain = lit "boom
(1) issue: http://x/1
  | detail: see there
Wraps: (2) http code: 404
Wraps: (3) gRPC code: NotFound
Wraps: (4) assertion failure
Wraps: (5) 2 safe details enclosed
  | sd1
  | sd2
Wraps: (6) tags: [kv,n7]
Wraps: (7) d
Wraps: (8) attached stack trace
  -- stack trace:
  | main.f
  | " ++ 9 :: lit "/m.go:10
Wraps: (9) boom
Error types: (1) *issuelink.withIssueLink (2) *exthttp.withHTTPCode (3) *extgrpc.withGrpcCode (4) *assert.withAssertionFailure (5) *safedetails.withSafeDetails (6) *contexttags.withContext (7) *hintdetail.withDetail (8) *withstack.withStack (9) *errors.errorString".
Proof. vm_compute. reflexivity. Qed.

(* ================================================================== *)
(* 8. the first line: the heads of the %+v run against those of the %v run *)
(* ================================================================== *)
(* ---- 8.1 state.Write in short mode (wantDetail = false) ---- *)
Lemma write_loop_short_frame b : forall s chunk,
  fs_wantDetail s = false ->
  fs_wantDetail (write_loop b s chunk) = false /\
  fs_hasDetail (write_loop b s chunk) = fs_hasDetail s /\
  fs_headbuf (write_loop b s chunk) = fs_headbuf s.
Proof.
  induction b as [|c r IH]; intros s chunk H; cbn [write_loop].
  - repeat split; assumption.
  - destruct (c =? nl).
    + cbn [fs_wantDetail set_needNewline set_buf]. rewrite H.
      destruct (IH (set_needNewline (set_buf s (fs_buf s ++ rev chunk)) (S (fs_needNewline s))) [] H)
        as (A & B & C).
      repeat split; assumption.
    + match goal with |- context [write_loop r ?s1 ?ch] =>
        destruct (IH s1 ch) as (A & B & C);
          [destruct (negb (Nat.eqb (fs_needNewline s) 0) && fs_notEmpty s); exact H|] end.
      repeat split; try assumption.
      * rewrite B. destruct (negb (Nat.eqb (fs_needNewline s) 0) && fs_notEmpty s); reflexivity.
      * rewrite C. destruct (negb (Nat.eqb (fs_needNewline s) 0) && fs_notEmpty s); reflexivity.
Qed.

Lemma write_loop_short_ext b : forall s chunk,
  fs_wantDetail s = false -> exists Z, fs_buf (write_loop b s chunk) = fs_buf s ++ Z.
Proof.
  induction b as [|c r IH]; intros s chunk H; cbn [write_loop].
  - exists (rev chunk). reflexivity.
  - destruct (c =? nl).
    + cbn [fs_wantDetail set_needNewline set_buf]. rewrite H.
      destruct (IH (set_needNewline (set_buf s (fs_buf s ++ rev chunk)) (S (fs_needNewline s))) [] H) as [Z E].
      rewrite E. cbn [fs_buf set_needNewline set_buf]. exists (rev chunk ++ Z). now rewrite <- app_assoc.
    + rewrite H. destruct (negb (Nat.eqb (fs_needNewline s) 0) && fs_notEmpty s).
      * match goal with |- context [write_loop r ?s1 ?ch] => destruct (IH s1 ch H) as [Z E] end.
        rewrite E. cbn [fs_buf set_notEmpty set_needNewline set_buf]. exists ([nl] ++ Z). now rewrite <- app_assoc.
      * match goal with |- context [write_loop r ?s1 ?ch] => destruct (IH s1 ch H) as [Z E] end.
        rewrite E. exists Z. reflexivity.
Qed.

(* the short-mode buffer once the %+v run has closed its head [H] because of a newline:
   either nothing (but newlines) has followed, or a line break follows [H] in the buffer;
   when [H] is empty the first byte after the newlines is written WITHOUT line break *)
Inductive hform (H : str) : str -> bool -> nat -> str -> Prop :=
| HF1 nn : H <> [] -> (1 <= nn)%nat -> hform H H true nn []
| HF2 X ne nn chunk : hform H (H ++ nl :: X) ne nn chunk
| HF3 nn : H = [] -> (1 <= nn)%nat -> hform H [] false nn []
| HF4 c nn : H = [] -> (c =? nl) = false -> (1 <= nn)%nat -> hform H [] true nn [c]
| HF5 c nn : H = [] -> (c =? nl) = false -> (1 <= nn)%nat -> hform H [c] true nn []
| HF6 c X ne nn chunk : H = [] -> hform H (c :: nl :: X) ne nn chunk.

Lemma short_evolve H b : forall s chunk,
  fs_wantDetail s = false ->
  hform H (fs_buf s) (fs_notEmpty s) (fs_needNewline s) chunk ->
  hform H (fs_buf (write_loop b s chunk)) (fs_notEmpty (write_loop b s chunk))
        (fs_needNewline (write_loop b s chunk)) [].
Proof.
  induction b as [|c r IH]; intros s chunk Hw HF.
  - destruct s as [ro pl es bf hb la hd wd ne nn]; fsimp_in Hw; fsimp_in HF; subst wd.
    cbn [write_loop]. fsimp.
    inversion HF; subst; cbn [rev app]; rewrite ?app_nil_r.
    + now constructor.
    + rewrite <- app_assoc. cbn [app]. constructor.
    + now constructor.
    + now constructor.
    + now constructor.
    + now constructor.
  - (* stable forms first *)
    assert (Stable : (exists X, fs_buf s = H ++ nl :: X) \/ (H = [] /\ exists c0 X, fs_buf s = c0 :: nl :: X) ->
                     hform H (fs_buf (write_loop (c :: r) s chunk)) (fs_notEmpty (write_loop (c :: r) s chunk))
                           (fs_needNewline (write_loop (c :: r) s chunk)) []).
    { destruct (write_loop_short_ext (c :: r) s chunk Hw) as [Z E]. rewrite E.
      intros [[X ->]|[-> (c0 & X & ->)]].
      - rewrite <- app_assoc. cbn [app]. constructor.
      - cbn [app]. now constructor. }
    destruct s as [ro pl es bf hb la hd wd ne nn]; fsimp_in Hw; fsimp_in HF; subst wd.
    inversion HF; subst.
    + (* HF1 *)
      cbn [write_loop]. destruct (c =? nl) eqn:Ec; fsimp.
      * apply IH; [reflexivity|]. fsimp. cbn [rev]. rewrite app_nil_r. constructor; [assumption|lia].
      * replace (Nat.eqb nn 0) with false by (symmetry; apply PeanoNat.Nat.eqb_neq; lia).
        cbn [negb andb]. fsimp. apply IH; [reflexivity|]. fsimp. constructor.
    + apply Stable. left. now exists X.
    + (* HF3 *)
      cbn [write_loop]. destruct (c =? nl) eqn:Ec; fsimp.
      * apply IH; [reflexivity|]. fsimp. cbn [rev app]. constructor; [reflexivity|lia].
      * rewrite andb_false_r. fsimp. apply IH; [reflexivity|]. fsimp. now constructor.
    + (* HF4 *)
      cbn [write_loop]. destruct (c =? nl) eqn:Ec; fsimp.
      * apply IH; [reflexivity|]. fsimp. cbn [rev app]. constructor; [reflexivity|assumption|lia].
      * replace (Nat.eqb nn 0) with false by (symmetry; apply PeanoNat.Nat.eqb_neq; lia).
        cbn [negb andb]. fsimp. apply IH; [reflexivity|]. fsimp.
        change ([] ++ [nl]) with ([] ++ nl :: @nil N). constructor.
    + (* HF5 *)
      cbn [write_loop]. destruct (c =? nl) eqn:Ec; fsimp.
      * apply IH; [reflexivity|]. fsimp. cbn [rev app]. constructor; [reflexivity|assumption|lia].
      * replace (Nat.eqb nn 0) with false by (symmetry; apply PeanoNat.Nat.eqb_neq; lia).
        cbn [negb andb]. fsimp. apply IH; [reflexivity|]. fsimp.
        cbn [app]. now constructor.
    + apply Stable. right. split; [reflexivity|]. now exists c0, X.
Qed.

(* ---- 8.2 state.Write in detail mode once the head is closed: the head stays ---- *)
Lemma write_loop_frozen b : forall v chunk,
  fs_hasDetail v = true ->
  fs_hasDetail (write_loop b v chunk) = true /\ fs_headbuf (write_loop b v chunk) = fs_headbuf v.
Proof.
  induction b as [|c r IH]; intros v chunk H;
    destruct v as [ro pl es bf hb la hd wd ne nn]; fsimp_in H; subst hd; cbn [write_loop].
  - fsimp. split; reflexivity.
  - destruct (c =? nl).
    + fsimp. destruct wd; fsimp; apply IH; reflexivity.
    + fsimp. destruct (negb (Nat.eqb nn 0) && ne); fsimp; apply IH; reflexivity.
Qed.

Definition frozen (K : fstate -> fstate) : Prop :=
  forall st, fs_hasDetail st = true ->
    fs_hasDetail (K st) = true /\ fs_headbuf (K st) = fs_headbuf st /\ fs_wantDetail (K st) = fs_wantDetail st.

Lemma frozen_id : frozen (fun s => s).
Proof. intros st H. repeat split; assumption. Qed.

Lemma frozen_comp K1 K2 : frozen K1 -> frozen K2 -> frozen (fun s => K2 (K1 s)).
Proof.
  intros H1 H2 st H. destruct (H1 st H) as (A & B & C). destruct (H2 (K1 st) A) as (A2 & B2 & C2).
  repeat split; congruence.
Qed.

Lemma frozen_write b : frozen (fun s => st_write s b).
Proof.
  intros st H. destruct b as [|c r]; [repeat split; assumption|].
  unfold st_write. destruct (write_loop_frozen (c :: r) st [] H) as [A B].
  repeat split; try assumption. apply write_loop_wd.
Qed.

Lemma frozen_sp ps : frozen (fun s => sp_print s ps).
Proof. apply frozen_write. Qed.

Lemma frozen_fold {A} (g : fstate -> A -> fstate) l :
  (forall x, frozen (fun s => g s x)) -> frozen (fun s => fold_left g l s).
Proof.
  intro Hg. induction l as [|x l IH]; cbn [fold_left]; [apply frozen_id|].
  exact (frozen_comp (fun s => g s x) (fun s => fold_left g l s) (Hg x) IH).
Qed.

Lemma frozen_ext K1 K2 : (forall s, K1 s = K2 s) -> frozen K1 -> frozen K2.
Proof. intros E H st Hd. rewrite <- E. now apply H. Qed.

Lemma frozen_print_tags tags first : frozen (fun s => print_tags s tags first).
Proof.
  apply (frozen_ext (fun s => fold_left st_write (tag_writes tags first) s)).
  - intro s. now rewrite print_tags_writes.
  - apply frozen_fold. intro x. apply frozen_write.
Qed.

Lemma frozen_print_safe_details ds comma : frozen (fun s => print_safe_details s ds comma).
Proof.
  apply (frozen_ext (fun s => fold_left st_write (safe_detail_writes ds comma) s)).
  - intro s. now rewrite print_safe_details_writes.
  - apply frozen_fold. intro x. apply frozen_write.
Qed.

Lemma frozen_opaque kind d : frozen (opaque_details kind d).
Proof.
  unfold opaque_details. intros st H. cbv zeta.
  set (st2 := sp_print (sp_print st [PLit (nl :: lit kind)]) [PLit (nl :: lit "type name: "); PSafe (dt_orig d)]).
  assert (F2 : fs_hasDetail st2 = true /\ fs_headbuf st2 = fs_headbuf st /\ fs_wantDetail st2 = fs_wantDetail st).
  { exact (frozen_comp _ _ (frozen_sp _) (frozen_sp _) st H). }
  clearbody st2. destruct F2 as (A & B & C).
  assert (F3 : forall (l : list str) (acc : N * fstate),
             fs_hasDetail (snd acc) = true ->
             let r := fold_left
               (fun (acc : N * fstate) (r : str) =>
                  (fst acc + 1,
                   sp_print (snd acc) [PLit (nl :: lit "reportable "); PSafe (dec_of_N (fst acc));
                                       PLit ([colon; nl]); PSafe r])) l acc in
             fs_hasDetail (snd r) = true /\ fs_headbuf (snd r) = fs_headbuf (snd acc) /\
             fs_wantDetail (snd r) = fs_wantDetail (snd acc)).
  { induction l as [|x l IH]; intros acc Ha; cbn [fold_left]; cbv zeta; [repeat split; assumption|].
    destruct (frozen_sp [PLit (nl :: lit "reportable "); PSafe (dec_of_N (fst acc)); PLit ([colon; nl]); PSafe x]
                        (snd acc) Ha) as (A1 & B1 & C1).
    match goal with |- context [fold_left _ l ?a] => destruct (IH a A1) as (A2 & B2 & C2) end.
    cbn [snd] in *. repeat split; congruence. }
  destruct (F3 (dt_rep d) (0, st2) A) as (A3 & B3 & C3). cbn [snd] in *.
  destruct (dt_full d) as [p|].
  - match goal with |- context [sp_print ?s ?ps] => destruct (frozen_sp ps s A3) as (A4 & B4 & C4) end.
    repeat split; congruence.
  - repeat split; congruence.
Qed.

(* ---- 8.3 the two runs side by side: [s] in short mode, [v] in detail mode ---- *)
Definition modes (s v : fstate) : Prop :=
  fs_wantDetail s = false /\ fs_wantDetail v = true /\ fs_hasDetail s = false /\ fs_headbuf s = [].

(* no newline, no Detail() so far: the buffers agree *)
Definition simA (s v : fstate) (chunk : str) : Prop :=
  fs_hasDetail v = false /\ fs_buf v = fs_buf s /\ fs_notEmpty v = fs_notEmpty s /\
  fs_needNewline v = 0%nat /\ fs_needNewline s = 0%nat /\ fs_headbuf v = [] /\
  (fs_notEmpty s = false -> fs_buf s = [] /\ chunk = []) /\
  (fs_notEmpty s = true -> fs_buf s ++ rev chunk <> []).

(* the %+v run has closed its head *)
Definition simB (s v : fstate) : Prop :=
  fs_hasDetail v = true /\ hform (fs_headbuf v) (fs_buf s) (fs_notEmpty s) (fs_needNewline s) [].

Definition rel (s v : fstate) : Prop := modes s v /\ (simA s v [] \/ simB s v).

Lemma write_loop_simA b : forall s v chunk,
  modes s v -> simA s v chunk -> rel (write_loop b s chunk) (write_loop b v chunk).
Proof.
  induction b as [|c r IH]; intros s v chunk M A;
    destruct s as [ro pl es bf hb la hd wd ne nn], v as [ro' pl' es' bf' hb' la' hd' wd' ne' nn'];
    unfold modes, simA in M, A; fsimp_in M; fsimp_in A;
    destruct M as (-> & -> & -> & ->); destruct A as (-> & -> & -> & -> & -> & -> & I1 & I2).
  - cbn [write_loop]. split; [repeat split|]. left. unfold simA. fsimp.
    repeat split; try reflexivity.
    + destruct (I1 H) as [-> ->]. reflexivity.
    + intro E. cbn [rev]. rewrite app_nil_r. now apply I2.
  - cbn [write_loop]. destruct (c =? nl) eqn:Ec.
    + fsimp.
      match goal with |- rel (write_loop r ?s1 []) (write_loop r ?v1 []) =>
        destruct (write_loop_short_frame r s1 [] eq_refl) as (F1 & F2 & F3);
        destruct (write_loop_frozen r v1 [] eq_refl) as (G1 & G2);
        pose proof (write_loop_wd r v1 []) as G3;
        pose proof (short_evolve (bf ++ rev chunk) r s1 [] eq_refl) as SE
      end.
      cbn [fs_hasDetail fs_headbuf fs_wantDetail fs_buf fs_notEmpty fs_needNewline] in F2, F3, G2, G3, SE.
      split; [repeat split; assumption|]. right. split; [exact G1|]. rewrite G2. apply SE.
      destruct ne.
      * constructor; [now apply I2|lia].
      * destruct (I1 eq_refl) as [-> ->]. cbn [rev app]. constructor; [reflexivity|lia].
    + fsimp. cbn [Nat.eqb negb andb]. fsimp. apply IH.
      * repeat split.
      * unfold simA. fsimp. repeat split; try reflexivity; try discriminate.
        intros _. cbn [rev]. intro E. apply app_eq_nil in E as [_ E]. apply app_eq_nil in E as [_ E]. discriminate.
Qed.

Lemma rel_write s v b : rel s v -> rel (st_write s b) (st_write v b).
Proof.
  intros [M [A|B]].
  - destruct b as [|c r]; [split; [exact M|now left]|]. unfold st_write. now apply write_loop_simA.
  - destruct b as [|c r]; [split; [exact M|now right]|]. unfold st_write.
    destruct M as (M1 & M2 & M3 & M4). destruct B as [B1 B2].
    destruct (write_loop_short_frame (c :: r) s [] M1) as (F1 & F2 & F3).
    destruct (write_loop_frozen (c :: r) v [] B1) as (G1 & G2).
    split; [repeat split; try congruence; rewrite write_loop_wd; exact M2|].
    right. split; [exact G1|]. rewrite G2. now apply short_evolve.
Qed.

(* the heads the two runs end with *)
Definition trich (hs hv : str) : Prop :=
  hs = hv \/ (exists Y, hs = hv ++ nl :: Y) \/
  (hv = [] /\ (List.length hs <= 1)%nat) \/ (hv = [] /\ no_nl hs = false).

Definition vhead (v : fstate) : str := if fs_hasDetail v then fs_headbuf v else fs_buf v.

Definition fin (s v : fstate) : Prop := modes s v /\ trich (fs_buf s) (vhead v).

Lemma hform_trich H bf ne nn : hform H bf ne nn [] -> trich bf H.
Proof.
  intro HF. inversion HF; subst.
  - now left.
  - right. left. now exists X.
  - now left.
  - right. right. left. split; [reflexivity|cbn [List.length]; lia].
  - right. right. right. split; [reflexivity|].
    cbn [no_nl forallb]. rewrite N.eqb_refl. cbn [negb andb]. apply andb_false_r.
Qed.

Lemma rel_fin s v : rel s v -> fin s v.
Proof.
  intros [M [A|B]]; split; try exact M.
  - destruct A as (A1 & A2 & _). unfold vhead. rewrite A1, A2. now left.
  - destruct B as [B1 B2]. unfold vhead. rewrite B1. now apply (hform_trich _ _ _ _ B2).
Qed.

(* p.Detail() at the end of a node's own part *)
Lemma rel_detail_fin s v K : frozen K -> rel s v -> fin (if_detail s K) (if_detail v K).
Proof.
  intros FK [M R]. pose proof M as (M1 & M2 & M3 & M4).
  rewrite (if_detail_short s K M1).
  unfold if_detail, st_detail. rewrite M2. cbn [negb].
  set (v1 := if fs_notEmpty v then set_needNewline v 1 else v).
  assert (V1 : fs_hasDetail v1 = fs_hasDetail v /\ fs_headbuf v1 = fs_headbuf v /\ fs_buf v1 = fs_buf v /\
               fs_wantDetail v1 = true).
  { subst v1. destruct (fs_notEmpty v); repeat split; assumption. }
  destruct V1 as (V1 & V2 & V3 & V4).
  assert (SO : fs_hasDetail (switch_over v1) = true /\ fs_wantDetail (switch_over v1) = true /\
               fs_headbuf (switch_over v1) = vhead v).
  { unfold switch_over, vhead. rewrite <- V1. destruct (fs_hasDetail v1) eqn:E.
    - rewrite E. repeat split; assumption.
    - cbn [fs_hasDetail fs_wantDetail fs_headbuf]. repeat split; assumption. }
  destruct SO as (S1 & S2 & S3). destruct (FK _ S1) as (K1 & K2 & K3).
  split; [repeat split; try assumption; congruence|].
  unfold vhead at 1. rewrite K1, K2, S3. exact (proj2 (rel_fin s v (conj M R))).
Qed.

(* a write of the %+v run only that starts with a newline closes the head where it is *)
Lemma st_write_nl_closes v x :
  fs_wantDetail v = true ->
  fs_hasDetail (st_write v (nl :: x)) = true /\ fs_wantDetail (st_write v (nl :: x)) = true /\
  fs_headbuf (st_write v (nl :: x)) = vhead v.
Proof.
  intro W. unfold st_write. rewrite write_loop_wd.
  cbn [write_loop]. rewrite N.eqb_refl.
  match goal with |- context [write_loop x ?v2 []] => set (v2' := v2) end.
  assert (E : fs_hasDetail v2' = true /\ fs_headbuf v2' = vhead v).
  { subst v2'. destruct v as [ro pl es bf hb la hd wd ne nn]; fsimp_in W; subst wd.
    unfold vhead. fsimp. destruct hd; fsimp; cbn [rev]; rewrite ?app_nil_r; split; reflexivity. }
  destruct E as [E1 E2]. destruct (write_loop_frozen x v2' [] E1) as [A B].
  repeat split; [exact A|exact W|congruence].
Qed.

Lemma fin_frozen_v s v K : frozen K -> fs_hasDetail v = true -> fin s v -> fin s (K v).
Proof.
  intros FK Hd [(M1 & M2 & M3 & M4) T]. destruct (FK v Hd) as (K1 & K2 & K3).
  split; [repeat split; try assumption; congruence|].
  unfold vhead in *. rewrite K1, K2. now rewrite Hd in T.
Qed.

Lemma rel_frames_fin s v (xs : list str) :
  rel s v -> fin s (fold_left (fun st x => st_write st (nl :: x)) xs v).
Proof.
  intro R. destruct xs as [|x xs]; [now apply rel_fin|]. cbn [fold_left].
  pose proof (rel_fin s v R) as [M T]. pose proof M as (M1 & M2 & M3 & M4).
  destruct (st_write_nl_closes v x M2) as (A & B & C).
  apply (fin_frozen_v s (st_write v (nl :: x)) (fun st => fold_left (fun st x => st_write st (nl :: x)) xs st)).
  - apply frozen_fold. intro y. apply frozen_write.
  - exact A.
  - split; [repeat split; assumption|]. unfold vhead at 1. now rewrite A, C.
Qed.

(* ---- 8.4 the shape of a node's own part: writes, then (possibly) p.Detail() ---- *)
Inductive headfun : (fstate -> fstate) -> Prop :=
| hf_id : headfun (fun s => s)
| hf_write f b : headfun f -> headfun (fun s => st_write (f s) b).

Lemma hf_sp f ps : headfun f -> headfun (fun s => sp_print (f s) ps).
Proof. intro H. exact (hf_write f (sprint_pieces ps) H). Qed.

Lemma headfun_rel f : headfun f -> forall s v, rel s v -> rel (f s) (f v).
Proof. induction 1; intros s v R; [exact R|]. apply rel_write. now apply IHheadfun. Qed.

Lemma headfun_cfg f : headfun f -> forall s, cfg (f s) = cfg s.
Proof. induction 1; intro s; [reflexivity|]. now rewrite st_write_cfg. Qed.

Lemma headfun_ext f g : (forall s, f s = g s) -> headfun f -> forall s v, rel s v -> rel (g s) (g v).
Proof. intros E H s v R. rewrite <- !E. now apply headfun_rel. Qed.

(* what comes after the head: nothing, p.Detail() and detail writes, or (pkg/errors
   fundamental inside a chain, '+' flag) the stack frames, each starting with a newline *)
Record tailfun (T : fstate -> fstate) : Prop := mktail {
  tf_fin : forall s v, rel s v -> fs_plus s = false -> fin (T s) (T v);
  tf_cfg : forall s, cfg (T s) = cfg s }.

Lemma tail_id : tailfun (fun s => s).
Proof. split; [intros s v R _; now apply rel_fin|reflexivity]. Qed.

Lemma tail_detail K : frozen K -> (forall s, cfg (K s) = cfg s) -> tailfun (fun s => if_detail s K).
Proof.
  intros FK CK. split.
  - intros s v R _. now apply rel_detail_fin.
  - intro s. now apply if_detail_cfg.
Qed.

Lemma fin_set_last s v l1 l2 : fin s v -> fin (set_last s l1) (set_last v l2).
Proof. intros [M T]. split; [exact M|exact T]. Qed.

Lemma tail_frames stk :
  tailfun (fun s => set_last (if fs_plus s then fold_left (fun st f => st_write st (nl :: print_frame f)) stk s else s) stk).
Proof.
  split.
  - intros s v R P. rewrite P. apply fin_set_last. destruct (fs_plus v); [|now apply rel_fin].
    assert (E : forall l st, fold_left (fun st x => st_write st (nl :: x)) (List.map print_frame l) st =
                             fold_left (fun st f => st_write st (nl :: print_frame f)) l st).
    { induction l as [|f l IH]; intro st; cbn [List.map fold_left]; [reflexivity|apply IH]. }
    rewrite <- E. now apply rel_frames_fin.
  - intro s. change (cfg (set_last ?x stk)) with (cfg x).
    destruct (fs_plus s); [|reflexivity].
    rewrite fold_left_cfg; [reflexivity|]. intros st f. apply st_write_cfg.
Qed.

Definition bodyshape (body : bool -> fstate -> body_res) : Prop :=
  forall o, exists f T red el seen,
    (forall st, body o st = mkbody (T (f st)) red el seen) /\ headfun f /\ tailfun T.

Ltac hf := repeat first [ apply hf_id | apply hf_sp | apply hf_write ].

(* the default branch of formatRecursive *)
Lemma default_body_shape e text sent il hm ct :
  exists f red el seen,
    (forall st, default_body e text sent il hm ct st = mkbody (f st) red el seen) /\ headfun f.
Proof.
  unfold default_body. destruct (il && sent).
  { do 4 eexists. split; [intro st; reflexivity|hf]. }
  assert (FS : exists f red el seen,
             (forall st, (let '(st1, el) := format_simple st text ct in mkbody st1 false (el || hm) false)
                         = mkbody (f st) red el seen) /\ headfun f).
  { unfold format_simple. destruct ct as [cm|].
    - destruct (extract_prefix text cm) as [p mt]. do 4 eexists. split; [intro st; reflexivity|hf].
    - do 4 eexists. split; [intro st; reflexivity|hf]. }
  destruct e as [i k|i w c| | | | |]; try exact FS.
  - destruct k as [| | | | | | | | | |?|u ? ? ?]; try exact FS;
      try (do 4 eexists; split; [intro st; reflexivity|hf]).
    destruct u; try exact FS; do 4 eexists; (split; [intro st; reflexivity|hf]).
  - destruct w as [| | | | | | | | | | | | | | | | | | | |op net src addr|]; try exact FS;
      try (do 4 eexists; split; [intro st; reflexivity|hf]).
    destruct net, src, addr; hf.
Qed.

Lemma default_body_bodyshape e text sent il hm ct :
  bodyshape (fun _ st => default_body e text sent il hm ct st).
Proof.
  intro o. destruct (default_body_shape e text sent il hm ct) as (f & red & el & seen & E & H).
  exists f, (fun s => s), red, el, seen. split; [exact E|]. split; [exact H|apply tail_id].
Qed.

Lemma frozen_sp_after f ps : frozen f -> frozen (fun s => sp_print (f s) ps).
Proof. intro H. exact (frozen_comp f (fun s => sp_print s ps) H (frozen_sp ps)). Qed.
Lemma frozen_write_after f b : frozen f -> frozen (fun s => st_write (f s) b).
Proof. intro H. exact (frozen_comp f (fun s => st_write s b) H (frozen_write b)). Qed.
Lemma frozen_pl_after f b : frozen f -> frozen (fun s => pl_print (f s) b).
Proof. apply frozen_write_after. Qed.
Lemma frozen_tags_after f tags first : frozen f -> frozen (fun s => print_tags (f s) tags first).
Proof. intro H. exact (frozen_comp f (fun s => print_tags s tags first) H (frozen_print_tags tags first)). Qed.
Lemma frozen_sd_after f ds comma : frozen f -> frozen (fun s => print_safe_details (f s) ds comma).
Proof. intro H. exact (frozen_comp f (fun s => print_safe_details s ds comma) H (frozen_print_safe_details ds comma)). Qed.

Ltac fz := repeat first [ apply frozen_id | apply frozen_sp_after | apply frozen_pl_after | apply frozen_write_after
                        | apply frozen_tags_after | apply frozen_sd_after | apply frozen_opaque ].

Lemma format_simple_shape text ct :
  exists f el, (forall st, format_simple st text ct = (f st, el)) /\ headfun f.
Proof.
  unfold format_simple. destruct ct as [cm|].
  - destruct (extract_prefix text cm) as [p mt]. do 2 eexists. split; [intro st; reflexivity|hf].
  - do 2 eexists. split; [intro st; reflexivity|hf].
Qed.

(* the library wrappers *)
Lemma wrap_body_shape w :
  (exists f T nn red, (forall st, wrap_body w st = Some (T (f st), nn, red)) /\ headfun f /\ tailfun T) \/
  (forall st, wrap_body w st = None).
Proof.
  destruct w; cbn [wrap_body]; try (right; reflexivity); left.
  - (* WStack *)
    exists (fun s => s), (fun s => if_detail s (fun s0 => sp_print s0 [PLit (lit "attached stack trace")])), false, true.
    split; [reflexivity|]. split; [hf|]. apply tail_detail; [fz|intro s; cf].
  - exists (fun s => sp_print s [PRaw rp]), (fun s => s), false, true.
    split; [reflexivity|]. split; [hf|apply tail_id].
  - exists (fun s => sp_print s [PRaw rm]), (fun s => s), true, true.
    split; [reflexivity|]. split; [hf|apply tail_id].
  - exists (fun s => s), (fun s => if_detail s (fun s0 => pl_print s0 h)), false, false.
    split; [reflexivity|]. split; [hf|]. apply tail_detail; [fz|intro s; cf].
  - exists (fun s => s), (fun s => if_detail s (fun s0 => pl_print s0 d)), false, false.
    split; [reflexivity|]. split; [hf|]. apply tail_detail; [fz|intro s; cf].
  - (* issue link *)
    eexists (fun s => s), (fun s => if_detail s _), false, true.
    split; [intro st; reflexivity|]. split; [hf|]. apply tail_detail.
    + destruct url, det; fz.
    + intro s. destruct url, det; cf.
  - eexists (fun s => s), (fun s => if_detail s _), false, true.
    split; [intro st; reflexivity|]. split; [hf|]. apply tail_detail; [fz|intro s; cf].
  - eexists (fun s => s), (fun s => if_detail s _), false, true.
    split; [intro st; reflexivity|]. split; [hf|]. apply tail_detail; [fz|intro s; cf].
  - (* tags *)
    exists (fun s => s),
           (fun s => if_detail s (fun s0 =>
              if negb (match tags with [] => true | _ => false end)
              then sp_print (print_tags (sp_print s0 [PLit (lit "tags: [")]) tags true) [PLit (lit "]")]
              else s0)), false, true.
    split; [|split; [hf|]].
    + intro st. unfold if_detail. destruct (st_detail st) as [st1 dd].
      destruct dd, tags; reflexivity.
    + apply tail_detail.
      * destruct tags; cbn [negb]; fz.
      * intro s. destruct tags; cbn [negb]; cf.
  - eexists (fun s => s), (fun s => if_detail s _), false, true.
    split; [intro st; reflexivity|]. split; [hf|]. apply tail_detail; [fz|intro s; cf].
  - (* mark *)
    eexists (fun s => s), (fun s => if_detail s _), false, true.
    split; [intro st; reflexivity|]. split; [hf|]. apply tail_detail; [cbv zeta; fz|intro s; cbv zeta; cf].
  - (* safe details *)
    eexists (fun s => s), (fun s => if_detail s _), false, true.
    split; [intro st; reflexivity|]. split; [hf|]. apply tail_detail.
    + cbv zeta. destruct (Nat.eqb (List.length ds) 1); fz.
    + intro s. cbv zeta. destruct (Nat.eqb (List.length ds) 1); cf.
  - eexists (fun s => s), (fun s => if_detail s _), false, true.
    split; [intro st; reflexivity|]. split; [hf|]. apply tail_detail; [fz|intro s; cf].
  - eexists (fun s => s), (fun s => if_detail s _), false, true.
    split; [intro st; reflexivity|]. split; [hf|]. apply tail_detail; [fz|intro s; cf].
Qed.

(* ---- 8.5 entries of the two runs ---- *)
Definition erel (es ev : fentry) : Prop :=
  fe_elide es = fe_elide ev /\ fe_red es = fe_red ev /\ trich (fe_head es) (fe_head ev).

Definition runrel (S V : fstate) : Prop :=
  fs_redout S = fs_redout V /\ fs_plus S = false /\ fs_buf S = [] /\ fs_buf V = [] /\
  Forall2 erel (fs_entries S) (fs_entries V).

Definition sim_inv (x : err) : Prop :=
  forall o w k s0 v0, runrel s0 v0 ->
    runrel (fst (ns_fmt (sem x) o false w k s0)) (fst (ns_fmt (sem x) o true w k v0)).

Lemma strip_cons_nl X : strip_markers (nl :: X) = nl :: strip_markers X.
Proof.
  unfold strip_markers. rewrite tokenize_cons_plain by reflexivity. reflexivity.
Qed.

Lemma strip_single c : strip_markers [c] = [c].
Proof. reflexivity. Qed.

Lemma no_nl_false_has s : no_nl s = false -> exists a b, s = a ++ nl :: b.
Proof.
  induction s as [|c r IH]; [discriminate|]. cbn [no_nl forallb]. intro H.
  destruct (c =? nl) eqn:E.
  - apply N.eqb_eq in E. subst c. now exists [], r.
  - cbn [negb andb] in H. destruct (IH H) as (a & b & ->). now exists (c :: a), b.
Qed.

Lemma trich_strip hs hv : trich hs hv -> trich (strip_markers hs) (strip_markers hv).
Proof.
  intros [->|[[Y ->]|[[-> L]|[-> N]]]].
  - now left.
  - right. left. rewrite strip_app_nl_head by (right; eexists; reflexivity).
    rewrite strip_cons_nl. eexists. reflexivity.
  - right. right. left. split; [reflexivity|].
    destruct hs as [|c [|c2 r]]; cbn [List.length] in L; try lia.
    + change (strip_markers []) with (@nil N). cbn [List.length]. lia.
    + rewrite strip_single. cbn [List.length]. lia.
  - right. right. right. split; [reflexivity|].
    destruct (no_nl_false_has _ N) as (a & b & ->).
    rewrite strip_app_nl_head by (right; eexists; reflexivity). rewrite strip_cons_nl.
    rewrite no_nl_app. cbn [no_nl forallb]. rewrite N.eqb_refl. cbn [negb andb]. apply andb_false_r.
Qed.

Lemma collect_entry_redflag st ty r w k : fe_red (collect_entry st ty r w k) = r && fs_redout st.
Proof.
  unfold collect_entry.
  destruct (fs_wantDetail st), (fs_hasDetail st), r, (fs_redout st); reflexivity.
Qed.

Lemma collect_entry_head_s st ty r w k :
  fs_wantDetail st = false -> fs_headbuf st = [] ->
  fe_head (collect_entry st ty r w k) = if r && negb (fs_redout st) then strip_markers (fs_buf st) else fs_buf st.
Proof.
  intros H1 H2. unfold collect_entry. rewrite H1, H2. destruct r, (fs_redout st); reflexivity.
Qed.

Lemma collect_entry_head_v st ty r w k :
  fs_wantDetail st = true ->
  fe_head (collect_entry st ty r w k) = if r && negb (fs_redout st) then strip_markers (vhead st) else vhead st.
Proof.
  intros H1. unfold collect_entry, vhead. rewrite H1.
  destruct (fs_hasDetail st), r, (fs_redout st); reflexivity.
Qed.

Lemma mark_first_erel n : forall Es Ev, Forall2 erel Es Ev -> Forall2 erel (mark_first n Es) (mark_first n Ev).
Proof.
  induction n as [|n IH]; intros Es Ev H; [destruct H; [constructor|now constructor]|].
  destruct H as [|es ev Es Ev (A & B & C) H]; cbn [mark_first]; constructor; [|now apply IH].
  repeat split; assumption.
Qed.

Lemma fold_multi_sim depth cs :
  Forall sim_inv cs ->
  forall accs accv, runrel (fst accs) (fst accv) -> snd accs = snd accv ->
    let rs := fold_left
      (fun (acc : fstate * nat) (k : nsem) =>
         let '(s', m) := ns_fmt k false false true (S depth) (fst acc) in (s', (snd acc + m)%nat))
      (List.map sem cs) accs in
    let rv := fold_left
      (fun (acc : fstate * nat) (k : nsem) =>
         let '(s', m) := ns_fmt k false true true (S depth) (fst acc) in (s', (snd acc + m)%nat))
      (List.map sem cs) accv in
    runrel (fst rs) (fst rv) /\ snd rs = snd rv.
Proof.
  induction 1 as [|c cs Hc Hcs IH]; intros accs accv R N; cbn [List.map fold_left]; cbv zeta.
  - split; assumption.
  - pose proof (Hc false true (S depth) (fst accs) (fst accv) R) as R1.
    pose proof (fmt_count c false false true (S depth) (fst accs)) as N1.
    pose proof (fmt_count c false true true (S depth) (fst accv)) as N2.
    destruct (ns_fmt (sem c) false false true (S depth) (fst accs)) as [s1 m1].
    destruct (ns_fmt (sem c) false true true (S depth) (fst accv)) as [v1 m2].
    cbn [fst snd] in *. apply IH; cbn [fst snd]; [exact R1|congruence].
Qed.

Lemma format_node_sim ty (single : option err) (cs : list err) own body :
  match single with Some c => sim_inv c | None => True end ->
  Forall sim_inv cs ->
  bodyshape body ->
  forall o w k s0 v0, runrel s0 v0 ->
    let f := format_node ty (match single with Some c => Some (sem c) | None => None end)
                         (List.map sem cs) own body in
    runrel (fst (f o false w k s0)) (fst (f o true w k v0)).
Proof.
  intros Hs Hm Hb o w k s0 v0 R. cbv zeta. unfold format_node.
  (* the single cause *)
  assert (H1 : exists S1 V1 n1,
             match match single with Some c => Some (sem c) | None => None end with
             | Some sc => ns_fmt sc false false w (S k) s0
             | None => (s0, 0%nat)
             end = (S1, n1) /\
             match match single with Some c => Some (sem c) | None => None end with
             | Some sc => ns_fmt sc false true w (S k) v0
             | None => (v0, 0%nat)
             end = (V1, n1) /\ runrel S1 V1).
  { destruct single as [c|].
    - pose proof (Hs false w (S k) s0 v0 R) as R1.
      pose proof (fmt_count c false false w (S k) s0) as N1.
      pose proof (fmt_count c false true w (S k) v0) as N2.
      destruct (ns_fmt (sem c) false false w (S k) s0) as [S1 m1].
      destruct (ns_fmt (sem c) false true w (S k) v0) as [V1 m2]. cbn [fst snd] in *.
      exists S1, V1, m1. split; [reflexivity|]. split; [f_equal; congruence|exact R1].
    - exists s0, v0, 0%nat. split; [reflexivity|]. split; [reflexivity|exact R]. }
  destruct H1 as (S1 & V1 & n1 & -> & -> & R1).
  pose proof (fold_multi_sim k cs Hm (S1, n1) (V1, n1) R1 eq_refl) as H2. cbv zeta in H2.
  destruct (fold_left _ (List.map sem cs) (S1, n1)) as [S2 n2].
  destruct (fold_left _ (List.map sem cs) (V1, n1)) as [V2 n2'].
  cbn [fst snd] in H2. destruct H2 as [R2 <-].
  destruct R2 as (Q1 & Q2 & Q3 & Q4 & Q5).
  cbv zeta. rewrite Q3, Q4.
  change (mkst (fs_redout S2) (fs_plus S2) (fs_entries S2) [] [] (fs_last S2) false false false 0)
    with (fresh (fs_redout S2) (fs_plus S2) (fs_entries S2) (fs_last S2) false).
  change (mkst (fs_redout V2) (fs_plus V2) (fs_entries V2) [] [] (fs_last V2) false true false 0)
    with (fresh (fs_redout V2) (fs_plus V2) (fs_entries V2) (fs_last V2) true).
  set (S3 := fresh (fs_redout S2) (fs_plus S2) (fs_entries S2) (fs_last S2) false).
  set (V3 := fresh (fs_redout V2) (fs_plus V2) (fs_entries V2) (fs_last V2) true).
  destruct (Hb o) as (f & T & red & el & seen & E & HF & HT).
  rewrite !E. cbn [br_st br_red br_elide br_seen].
  assert (R3 : rel S3 V3).
  { split; [repeat split|]. left. unfold simA. cbn [S3 V3 fresh fs_hasDetail fs_buf fs_notEmpty fs_needNewline fs_headbuf].
    repeat split; try reflexivity; discriminate. }
  pose proof (headfun_rel f HF S3 V3 R3) as R4.
  pose proof (headfun_cfg f HF S3) as C4s. pose proof (headfun_cfg f HF V3) as C4v.
  assert (P4 : fs_plus (f S3) = false).
  { unfold cfg in C4s. injection C4s as _ P _ _. rewrite P. exact Q2. }
  pose proof (tf_fin T HT _ _ R4 P4) as F5.
  pose proof (tf_cfg T HT (f S3)) as C5s. pose proof (tf_cfg T HT (f V3)) as C5v.
  rewrite C4s in C5s. rewrite C4v in C5v. clear C4s C4v R4 P4 R3.
  unfold cfg in C5s, C5v. cbn [S3 V3 fresh fs_redout fs_plus fs_entries fs_wantDetail] in C5s, C5v.
  injection C5s as A1 A2 A3 A4. injection C5v as B1 B2 B3 B4.
  set (S5 := T (f S3)) in *. set (V5 := T (f V3)) in *. clearbody S5 V5. clear S3 V3 E.
  set (S6 := if el then elide_short S5 n2 else S5).
  set (V6 := if el then elide_short V5 n2 else V5).
  assert (F6 : fin S6 V6 /\ fs_redout S6 = fs_redout S2 /\ fs_redout V6 = fs_redout V2 /\ fs_plus S6 = false /\
               Forall2 erel (fs_entries S6) (fs_entries V6)).
  { subst S6 V6. destruct el.
    - unfold elide_short. split; [exact F5|]. cbn [fs_redout fs_plus fs_entries set_entries].
      split; [exact A1|]. split; [exact B1|]. split; [congruence|].
      rewrite A3, B3. now apply mark_first_erel.
    - split; [exact F5|]. split; [exact A1|]. split; [exact B1|]. split; [congruence|].
      rewrite A3, B3. exact Q5. }
  clearbody S6 V6. destruct F6 as ([M Tr] & G1 & G2 & G3 & G4). destruct M as (M1 & M2 & M3 & M4).
  set (es0 := collect_entry S6 ty red w k). set (ev0 := collect_entry V6 ty red w k).
  assert (E0 : erel es0 ev0).
  { subst es0 ev0. repeat split.
    - now rewrite !collect_entry_elide.
    - rewrite !collect_entry_redflag. congruence.
    - rewrite collect_entry_head_s by assumption. rewrite collect_entry_head_v by assumption.
      rewrite G1, G2, Q1. destruct (red && negb (fs_redout V2)); [now apply trich_strip|exact Tr]. }
  assert (Fin : forall es1 ev1 S7 V7,
             erel es1 ev1 -> fs_redout S7 = fs_redout S6 -> fs_redout V7 = fs_redout V6 ->
             fs_plus S7 = false -> fs_entries S7 = fs_entries S6 -> fs_entries V7 = fs_entries V6 ->
             runrel (fst (set_buf (set_entries S7 (es1 :: fs_entries S7)) [], S n2))
                    (fst (set_buf (set_entries V7 (ev1 :: fs_entries V7)) [], S n2))).
  { intros es1 ev1 S7 V7 X1 X2 X3 X4 X5 X6. unfold runrel.
    cbn [fst set_buf set_entries fs_redout fs_plus fs_buf fs_entries].
    repeat split; try assumption; [congruence|]. rewrite X5, X6. now constructor. }
  destruct seen; [now apply Fin|].
  destruct own as [stk|]; [|now apply Fin].
  destruct (elide_shared (fs_last S6) stk) as [s1 el1]. destruct (elide_shared (fs_last V6) stk) as [s2 el2].
  apply Fin; try reflexivity; try assumption.
Qed.

(* ---- 8.6 every node has that shape ---- *)
Lemma join_headfun (scs : list nsem) : forall (b : bool) f,
  headfun f ->
  headfun (fun st => snd (fold_left
     (fun (acc : bool * fstate) (sc : nsem) =>
        let s0 := if fst acc then snd acc else sp_print (snd acc) [PUnsafe [nl]] in
        (false, sp_print s0 [nested_v sc])) scs (b, f st))).
Proof.
  induction scs as [|sc scs IH]; intros b f Hf; cbn [fold_left snd]; [exact Hf|].
  cbv zeta. cbn [fst snd].
  destruct b.
  - exact (IH false (fun st => sp_print (f st) [nested_v sc]) (hf_sp _ _ Hf)).
  - exact (IH false (fun st => sp_print (sp_print (f st) [PUnsafe [nl]]) [nested_v sc]) (hf_sp _ _ (hf_sp _ _ Hf))).
Qed.

Lemma leaf_bodyshape i k text sent :
  bodyshape (fun (outermost : bool) (st : fstate) =>
      match k with
      | LLeafError rm => body_safe (sp_print st [PRaw rm]) true
      | LUnimpl m url det =>
        let st1 := sp_print st [PUnsafe m] in
        body_safe (if_detail st1 (fun s =>
          let s1 := sp_print s [PLit (lit "unimplemented")] in
          let s2 := match url with [] => s1 | _ => sp_print s1 [PLit (nl :: lit "issue: "); PSafe url] end in
          match det with [] => s2 | _ => sp_print s2 [PLit (nl :: lit "detail: "); PSafe det] end)) true
      | LPkgFund m stk =>
        if negb outermost then mkbody (set_last (fundamental_format st m stk) stk) false false true
        else let '(st1, el) := format_simple st text None in mkbody st1 false el false
      | _ => default_body (Leaf i k) text sent true false None st
      end).
Proof.
  intro o. destruct k as [| |m stk| | |rm|m url det| | | | |];
    try exact (default_body_bodyshape _ _ _ _ _ _ o).
  - (* LPkgFund *)
    destruct (negb o).
    + exists (fun s => st_write s m),
             (fun s => set_last (if fs_plus s then fold_left (fun st f => st_write st (nl :: print_frame f)) stk s else s) stk),
             false, false, true.
      split; [|split; [hf|apply tail_frames]].
      intro st. unfold fundamental_format. cbv zeta.
      pose proof (st_write_cfg st m) as C. unfold cfg in C. injection C as _ P _ _. rewrite P. reflexivity.
    + exists (fun s => st_write s text), (fun s => s), false, false, false.
      split; [reflexivity|split; [hf|apply tail_id]].
  - (* LLeafError *)
    exists (fun s => sp_print s [PRaw rm]), (fun s => s), true, true, false.
    split; [reflexivity|split; [hf|apply tail_id]].
  - (* LUnimpl *)
    eexists (fun s => sp_print s [PUnsafe m]), (fun s => if_detail s _), true, true, false.
    split; [intro st; reflexivity|]. split; [hf|]. apply tail_detail.
    + cbv zeta. destruct url, det; fz.
    + intro s. cbv zeta. destruct url, det; cf.
Qed.

Lemma wrap_bodyshape i w c text sent ct :
  bodyshape (fun (outermost : bool) (st : fstate) =>
      match wrap_body w st with
      | Some (st1, next_nil, red) => mkbody st1 red next_nil false
      | None =>
        match w with
        | WPkgMsg _ | WPkgStack _ =>
          let '(st1, el) := format_simple st text (Some ct) in mkbody st1 false el false
        | _ => default_body (Wrap i w c) text sent false false (Some ct) st
        end
      end).
Proof.
  intro o. destruct (wrap_body_shape w) as [(f & T & nn & red & E & HF & HT)|EN].
  - exists f, T, red, nn, false. split; [|split; assumption]. intro st. cbv beta. now rewrite E.
  - assert (FS : exists f T red el seen,
               (forall st, (let '(st1, el) := format_simple st text (Some ct) in mkbody st1 false el false)
                           = mkbody (T (f st)) red el seen) /\ headfun f /\ tailfun T).
    { destruct (format_simple_shape text (Some ct)) as (f & el & E & HF).
      exists f, (fun s => s), false, el, false. split; [|split; [exact HF|apply tail_id]].
      intro st. now rewrite E. }
    destruct w; try (specialize (EN (st_init false false)); discriminate EN);
      cbn [wrap_body]; try exact FS; exact (default_body_bodyshape _ _ _ _ _ _ o).
Qed.

Lemma sem_sim e : sim_inv e.
Proof.
  induction e using err_ind'; intros oo ww kk s0 v0 R.
  - (* Leaf *)
    cbn [sem ns_fmt].
    apply (format_node_sim _ None []); [exact I|constructor| |exact R].
    apply leaf_bodyshape.
  - (* Wrap *)
    cbn [sem ns_fmt].
    apply (format_node_sim _ (Some e) []); [exact IHe|constructor| |exact R].
    apply wrap_bodyshape.
  - (* Second *)
    cbn [sem ns_fmt].
    apply (format_node_sim _ (Some e1) []); [exact IHe1|constructor| |exact R].
    intro o. eexists (fun s => s), (fun s => if_detail s _), true, false, false.
    split; [intro st; reflexivity|]. split; [hf|]. apply tail_detail; [fz|intro s; cf].
  - (* Barrier *)
    cbn [sem ns_fmt].
    apply (format_node_sim _ None []); [exact I|constructor| |exact R].
    intro o. eexists (fun s => sp_print s [PRaw m]), (fun s => if_detail s _), true, true, false.
    split; [intro st; reflexivity|]. split; [hf|]. apply tail_detail; [fz|intro s; cf].
  - (* Multi *)
    destruct k; cbn [sem ns_fmt].
    + apply (format_node_sim _ None cs); [exact I|exact H| |exact R].
      intro o. eexists _, (fun s => s), true, true, false.
      split; [intro st; reflexivity|]. split; [|apply tail_id].
      exact (join_headfun (List.map sem cs) true (fun s => s) hf_id).
    + apply (format_node_sim _ None cs); [exact I|exact H| |exact R].
      apply default_body_bodyshape.
    + apply (format_node_sim _ None cs); [exact I|exact H| |exact R].
      apply default_body_bodyshape.
  - (* OLeaf *)
    cbn [sem ns_fmt].
    apply (format_node_sim _ None cs); [exact I|exact H| |exact R].
    intro o. eexists (fun s => sp_print s [PUnsafe m]), (fun s => if_detail s _), true, true, false.
    split; [intro st; reflexivity|]. split; [hf|]. apply tail_detail; [fz|intro s; apply opaque_details_cfg].
  - (* OWrap *)
    cbn [sem ns_fmt].
    apply (format_node_sim _ (Some e) []); [exact IHe|constructor| |exact R].
    intro o. destruct p as [|x p].
    + eexists (fun s => s), (fun s => if_detail s _), true, _, false.
      split; [intro st; reflexivity|]. split; [hf|]. apply tail_detail; [fz|intro s; apply opaque_details_cfg].
    + eexists (fun s => sp_print s [PUnsafe (x :: p)]), (fun s => if_detail s _), true, _, false.
      split; [intro st; reflexivity|]. split; [hf|]. apply tail_detail; [fz|intro s; apply opaque_details_cfg].
Qed.

(* ---- 8.7 the theorems ---- *)
(* the entries of the engine run behind %v / %s *)
Definition sentries (e : err) (red : bool) : list fentry :=
  fs_entries (fst (ns_fmt (sem e) true false false 0%nat (st_init red false))).

Lemma final_short_sentries e red : final_short (sem e) red false = single_line red (sentries e red) [].
Proof.
  unfold final_short, sentries.
  destruct (ns_fmt (sem e) true false false 0%nat (st_init red false)) as [st n]. reflexivity.
Qed.

(* the first line of %+v is formatSingleLineOutput over the detail-mode entries *)
Theorem verbose_first_line e red :
  exists rest, final_verbose (sem e) red = single_line red (ventries e red) [] ++ nl :: lit "(1)" ++ rest.
Proof.
  rewrite final_verbose_ventries. pose proof (ventries_nonempty e red) as Hne.
  destruct (ventries e red) as [|fe r]; [contradiction|]. unfold format_entries.
  eexists. reflexivity.
Qed.

(* FOR EVERY TREE: entry by entry, the %v run and the %+v run elide the same entries, agree
   on redactability, and the one-line head [hs] of the %v run relates to the head [hv] of
   the %+v run by [trich]: equal; or [hs] continues after a line break (text with a newline:
   the rest is in the details of %+v); or [hv] is empty and [hs] is at most one byte or
   contains a line break (text that STARTS with a newline) *)
Theorem heads_sim e red : Forall2 erel (sentries e red) (ventries e red).
Proof.
  assert (R : runrel (st_init red false) (st_init red true)).
  { unfold runrel. cbn [st_init fs_redout fs_plus fs_buf fs_entries]. repeat split. constructor. }
  exact (proj2 (proj2 (proj2 (proj2 (sem_sim e true false 0%nat _ _ R))))).
Qed.

(* a one-line head is settled when it has no line break and is not a single byte *)
Definition settled (fe : fentry) : bool :=
  fe_elide fe || (no_nl (fe_head fe) && negb (Nat.eqb (List.length (fe_head fe)) 1)).

Lemma settled_head hs hv :
  trich hs hv -> no_nl hs = true -> List.length hs <> 1%nat -> hs = hv.
Proof.
  intros [->|[[Y ->]|[[-> L]|[-> N]]]] Hn Hl.
  - reflexivity.
  - rewrite no_nl_app in Hn. cbn [no_nl forallb] in Hn. rewrite N.eqb_refl in Hn.
    cbn [negb andb] in Hn. rewrite andb_false_r in Hn. discriminate.
  - destruct hs as [|c [|c2 r]]; cbn [List.length] in *; [reflexivity|lia|lia].
  - congruence.
Qed.

Lemma single_line_erel red Es Ev :
  Forall2 erel Es Ev -> forallb settled Es = true ->
  forall acc, single_line red Es acc = single_line red Ev acc.
Proof.
  induction 1 as [|es ev Es Ev (A & B & C) H IH]; intros Hs acc; [reflexivity|].
  cbn [forallb] in Hs. apply andb_true_iff in Hs as [Hs1 Hs2].
  cbn [single_line]. rewrite <- A. destruct (fe_elide es) eqn:El; [now apply IH|].
  unfold settled in Hs1. rewrite El in Hs1. cbn [orb] in Hs1. apply andb_true_iff in Hs1 as [N L].
  apply negb_true_iff, PeanoNat.Nat.eqb_neq in L.
  pose proof (settled_head _ _ C N L) as E. rewrite <- E.
  unfold out_bytes. rewrite <- B. destruct (fe_head es); now apply IH.
Qed.

(* (2) the link between the first line of %+v and the %v rendering *)
Theorem verbose_first_line_is_short e red :
  forallb settled (sentries e red) = true ->
  single_line red (ventries e red) [] = final_short (sem e) red false.
Proof.
  intro H. rewrite final_short_sentries. symmetry. apply single_line_erel; [apply heads_sim|exact H].
Qed.

Corollary plain_verbose_starts_with_short e :
  forallb settled (sentries e false) = true ->
  exists rest, fmt_plain_verbose e = fmt_plain_short e ++ nl :: lit "(1)" ++ rest.
Proof.
  intro H. destruct (verbose_first_line e false) as [rest E]. exists rest.
  unfold fmt_plain_verbose, fmt_plain_short. now rewrite E, verbose_first_line_is_short.
Qed.

(* with ShortText.fmt_plain_short_is_error_text (C09_v_s): %+v starts with the Error() text *)
Corollary plain_verbose_starts_with_error_text e :
  plain_tree e = true -> forallb settled (sentries e false) = true ->
  exists rest, fmt_plain_verbose e = error_text e ++ nl :: lit "(1)" ++ rest.
Proof.
  intros Hp H. destruct (plain_verbose_starts_with_short e H) as [rest E]. exists rest.
  now rewrite E, fmt_plain_short_is_error_text.
Qed.

(* ---- the hypothesis cannot be dropped ---- *)
(* a message that starts with a newline: %v has no line break, yet the first line of %+v differs *)
Definition ex_leading_nl : err := Leaf 100%positive (LErrString (nl :: lit "b")).

Example first_line_not_short :
  fmt_plain_short ex_leading_nl = lit "b" /\
  no_nl (fmt_plain_short ex_leading_nl) = true /\
  single_line false (ventries ex_leading_nl false) [] = [] /\
  fmt_plain_verbose ex_leading_nl = nl :: lit "(1) b" ++ nl :: lit "Error types: (1) *errors.errorString" /\
  error_text ex_leading_nl = nl :: lit "b" /\
  forallb settled (sentries ex_leading_nl false) = false.
Proof. vm_compute. repeat split. Qed.

(* a prefix with a newline: the first line of %+v is not the first line of %v either *)
Definition ex_prefix_nl : err :=
  Wrap 101%positive (WPrefix (lit "a" ++ nl :: lit "b")) (Leaf 100%positive (LErrString (lit "c"))).

Example first_line_not_first_line_of_short :
  fmt_plain_short ex_prefix_nl = lit "a" ++ nl :: lit "b: c" /\
  single_line false (ventries ex_prefix_nl false) [] = lit "a: c" /\
  fmt_plain_verbose ex_prefix_nl =
    lit "a: c" ++ nl :: lit "(1) ab" ++ nl :: lit "Wraps: (2) c" ++ nl ::
    lit "Error types: (1) *errutil.withPrefix (2) *errors.errorString".
Proof. vm_compute. repeat split. Qed.

(* a join: its one-line head has a line break; the first line of %+v is its first line *)
Example ex_tree_first_line :
  fmt_plain_short ex_tree = lit "x" ++ nl :: lit "context deadline exceeded" /\
  single_line false (ventries ex_tree false) [] = lit "x" /\
  forallb settled (sentries ex_tree false) = false.
Proof. vm_compute. repeat split. Qed.

(* the regular case *)
Example ex_chain_first_line :
  plain_tree ex_chain = true /\ forallb settled (sentries ex_chain false) = true /\
  error_text ex_chain = lit "boom" /\
  single_line false (ventries ex_chain false) [] = lit "boom".
Proof. vm_compute. repeat split. Qed.

(* a weaker hypothesis, on both runs: a single-byte one-line head is fine when the %+v head
   is not empty (the exception is only the text "\n" + one byte) *)
Fixpoint settled2 (Es Ev : list fentry) : bool :=
  match Es, Ev with
  | es :: Es', ev :: Ev' =>
    (fe_elide es ||
     (no_nl (fe_head es) &&
      (negb (Nat.eqb (List.length (fe_head es)) 1) || negb (is_empty (fe_head ev))))) &&
    settled2 Es' Ev'
  | _, _ => true
  end.

Lemma settled_head2 hs hv :
  trich hs hv -> no_nl hs = true -> (List.length hs <> 1%nat \/ hv <> []) -> hs = hv.
Proof.
  intros [->|[[Y ->]|[[-> L]|[-> N]]]] Hn Hl.
  - reflexivity.
  - rewrite no_nl_app in Hn. cbn [no_nl forallb] in Hn. rewrite N.eqb_refl in Hn.
    cbn [negb andb] in Hn. rewrite andb_false_r in Hn. discriminate.
  - destruct Hl as [Hl|Hl]; [|contradiction].
    destruct hs as [|c [|c2 r]]; cbn [List.length] in *; [reflexivity|lia|lia].
  - congruence.
Qed.

Lemma single_line_erel2 red Es Ev :
  Forall2 erel Es Ev -> settled2 Es Ev = true ->
  forall acc, single_line red Es acc = single_line red Ev acc.
Proof.
  induction 1 as [|es ev Es Ev (A & B & C) H IH]; intros Hs acc; [reflexivity|].
  cbn [settled2] in Hs. apply andb_true_iff in Hs as [Hs1 Hs2].
  cbn [single_line]. rewrite <- A. destruct (fe_elide es) eqn:El; [now apply IH|].
  cbn [orb] in Hs1. apply andb_true_iff in Hs1 as [N L].
  assert (E : fe_head es = fe_head ev).
  { apply settled_head2; [exact C|exact N|].
    apply orb_true_iff in L as [L|L]; apply negb_true_iff in L.
    - left. now apply PeanoNat.Nat.eqb_neq.
    - right. intro X. rewrite X in L. discriminate. }
  rewrite <- E. unfold out_bytes. rewrite <- B. destruct (fe_head es); now apply IH.
Qed.

Theorem verbose_first_line_is_short2 e red :
  settled2 (sentries e red) (ventries e red) = true ->
  single_line red (ventries e red) [] = final_short (sem e) red false.
Proof.
  intro H. rewrite final_short_sentries. symmetry. apply single_line_erel2; [apply heads_sim|exact H].
Qed.

(* a chain that ends in a one-byte message *)
Example ex_one_byte :
  let e := Wrap 2%positive (WHint (lit "h")) (ex_leaf 1%positive "x") in
  forallb settled (sentries e false) = false /\ settled2 (sentries e false) (ventries e false) = true /\
  single_line false (ventries e false) [] = lit "x" /\ fmt_plain_short e = lit "x".
Proof. vm_compute. repeat split. Qed.

(* the 'Error types' line and the entries follow the visit order of Report.visit_all
   exactly when no node has two or more branches *)
Corollary ventries_types_chainlike e red :
  chainlike e = true -> List.map fe_ty (ventries e red) = List.map go_type_string (visit_all e).
Proof. intro H. rewrite ventries_types. now rewrite engine_order_chainlike. Qed.
