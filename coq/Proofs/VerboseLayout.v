(* C09, the verbose rendering (%+v): its exact layout.

   1. [format_entries_layout] / [verbose_layout]: the rendering is
        first line, "\n", the entry lines joined by "\n", "\nError types:", one item per entry
      with entry k (k = 1..n, n = number of visible layers) = "(1)" resp. indentation ++ "Wraps: (k)",
      followed by the entry's head, its details (already laid out with the margin "  | " by the
      engine's Write) and its stack trace.
      The entries are in ENGINE order ([engine_order]: a node, then its multi-cause branches from
      the LAST to the first, then its single cause): this is the visit order of Report.visit_all
      only when no node has two or more branches ([verbose_order_not_visit_order]).
   2. the first line: it is formatSingleLineOutput over the detail-mode entries.  It is NOT the
      %v rendering in general, nor its first line ([first_line_not_short], [first_line_not_first_line_of_short]);
      [heads_sim]: the exact relation between the heads of the two engine runs, for every tree;
      [verbose_first_line_is_short]: equality when every visible one-line head is "settled".
   3. [verbose_entries_spec]: for every tree, every layer at every depth: the entry at the layer's
      position has the layer's Go type, its depth, and for each library wrapper with a detail
      (hint, detail, issue link, telemetry keys, domain, tags, codes, assertion, safe details,
      stack, mark) an empty head and exactly the detail text the wrapper prints. *)
From Coq Require Import Lia List Bool Permutation.
From Errv Require Import Base.Str Redact.Markers Redact.Buffer Model.Err Model.Sem Model.Report
     Proofs.StrFacts Proofs.FastIs Proofs.RedactFacts Proofs.EngineFacts Proofs.ShortText
     Proofs.HiddenVisible.
Import ListNotations.

(* ================================================================== *)
(* 1. the layout of formatEntries, for every entry list                 *)
(* ================================================================== *)
(* printEntry = head part ++ details part ++ stack part *)
Definition entry_head_part (red : bool) (fe : fentry) : str :=
  match fe_head fe with
  | [] => []
  | c :: _ => (if c =? nl then [] else [sp]) ++ out_bytes red fe (fe_head fe)
  end.

Definition entry_details_part (red : bool) (fe : fentry) : str :=
  match fe_details fe with
  | [] => []
  | c :: _ =>
    (match fe_head fe with
     | [] => if c =? nl then [] else [sp]
     | _ => []
     end) ++ out_bytes red fe (fe_details fe)
  end.

Definition entry_stack_part (fe : fentry) : str :=
  match fe_stack fe with
  | Some stk =>
    nl :: lit "  -- stack trace:" ++ replace_nl (print_stack stk) detail_sep ++
    (if fe_elided fe then detail_sep ++ lit "[...repeated from below...]" else [])
  | None => []
  end.

Lemma print_entry_parts red fe :
  print_entry red fe = entry_head_part red fe ++ entry_details_part red fe ++ entry_stack_part fe.
Proof. reflexivity. Qed.

(* what precedes the entry: "(1)" for the first one, the branch indentation and "Wraps: (k)" for the others *)
Definition entry_label (k : N) (fe : fentry) : str :=
  if k =? 1 then lit "(1)"
  else indent_for (fe_depth fe) ++ lit "Wraps: (" ++ dec_of_N k ++ lit ")".

Definition entry_text (red : bool) (k : N) (fe : fentry) : str :=
  entry_label k fe ++ print_entry red fe.

Fixpoint entry_lines (red : bool) (es : list fentry) (k : N) : list str :=
  match es with
  | [] => []
  | fe :: r => entry_text red k fe :: entry_lines red r (k + 1)
  end.

Definition type_item (k : N) (fe : fentry) : str :=
  lit " (" ++ dec_of_N k ++ lit ") " ++ fe_ty fe.

Fixpoint type_items (es : list fentry) (k : N) : list str :=
  match es with
  | [] => []
  | fe :: r => type_item k fe :: type_items r (k + 1)
  end.

(* the indentation of a multi-cause branch at depth d (0 and 1: none) *)
Lemma indent_for_small : indent_for 0 = [] /\ indent_for 1 = [].
Proof. split; reflexivity. Qed.

Lemma indent_for_deep k :
  indent_for (S (S k)) = rep_str k (lit "  ") ++ [226; 148; 148; 226; 148; 128; 32].
Proof. reflexivity. Qed.

Lemma types_line_items es : forall k, types_line es k = List.concat (type_items es k).
Proof.
  induction es as [|fe r IH]; intro k; [reflexivity|].
  cbn [types_line type_items List.concat]. unfold type_item. rewrite IH, <- !app_assoc. reflexivity.
Qed.

Lemma wraps_lines_entry_lines red es : forall k, 1 < k ->
  wraps_lines red es k = List.concat (List.map (cons nl) (entry_lines red es k)).
Proof.
  induction es as [|fe r IH]; intros k Hk; [reflexivity|].
  cbn [wraps_lines entry_lines List.map List.concat].
  rewrite IH by lia. unfold entry_text, entry_label.
  replace (k =? 1) with false by (symmetry; apply N.eqb_neq; lia).
  cbn [app]. rewrite <- !app_assoc. reflexivity.
Qed.

Lemma join_nl_cons x l : join [nl] (x :: l) = x ++ List.concat (List.map (cons nl) l).
Proof.
  revert x. induction l as [|y l IH]; intro x.
  - cbn [join List.map List.concat]. now rewrite app_nil_r.
  - change (join [nl] (x :: y :: l)) with (x ++ [nl] ++ join [nl] (y :: l)).
    rewrite IH. reflexivity.
Qed.

Theorem format_entries_layout red fe r :
  format_entries red (fe :: r) =
  single_line red (fe :: r) [] ++
  nl :: join [nl] (entry_lines red (fe :: r) 1) ++
  nl :: lit "Error types:" ++ List.concat (type_items (fe :: r) 1).
Proof.
  unfold format_entries. rewrite types_line_items.
  cbn [entry_lines]. rewrite join_nl_cons.
  rewrite wraps_lines_entry_lines by lia.
  unfold entry_text at 1, entry_label at 1. cbn [N.eqb Pos.eqb].
  f_equal. cbn [app]. f_equal. rewrite <- !app_assoc. reflexivity.
Qed.

Lemma entry_lines_length red es : forall k, List.length (entry_lines red es k) = List.length es.
Proof. induction es as [|fe r IH]; intro k; cbn [entry_lines List.length]; [reflexivity|now rewrite IH]. Qed.

Lemma type_items_length es : forall k, List.length (type_items es k) = List.length es.
Proof. induction es as [|fe r IH]; intro k; cbn [type_items List.length]; [reflexivity|now rewrite IH]. Qed.

(* entry number i+1 (counting from 1) is the text of the i-th element of the list *)
Lemma entry_lines_nth red es : forall k i fe,
  nth_error es i = Some fe ->
  nth_error (entry_lines red es k) i = Some (entry_text red (k + N.of_nat i) fe).
Proof.
  induction es as [|fe0 r IH]; intros k i fe H; [destruct i; discriminate|].
  destruct i as [|i]; cbn [nth_error entry_lines] in *.
  - injection H as ->. now rewrite N.add_0_r.
  - rewrite (IH _ _ _ H). do 2 f_equal. lia.
Qed.

Lemma type_items_nth es : forall k i fe,
  nth_error es i = Some fe ->
  nth_error (type_items es k) i = Some (type_item (k + N.of_nat i) fe).
Proof.
  induction es as [|fe0 r IH]; intros k i fe H; [destruct i; discriminate|].
  destruct i as [|i]; cbn [nth_error type_items] in *.
  - injection H as ->. now rewrite N.add_0_r.
  - rewrite (IH _ _ _ H). do 2 f_equal. lia.
Qed.

(* every entry text, and every type item, is a piece of the rendering *)
Lemma infix_join_nth l : forall i x, nth_error l i = Some x -> infix_of x (join [nl] l).
Proof.
  induction l as [|y l IH]; intros i x H; [destruct i; discriminate|].
  destruct l as [|z l].
  - destruct i as [|[|i]]; try discriminate. injection H as ->. apply infix_refl.
  - change (join [nl] (y :: z :: l)) with (y ++ [nl] ++ join [nl] (z :: l)).
    destruct i as [|i].
    + injection H as ->. apply infix_app_r. apply infix_refl.
    + apply infix_app_l. apply infix_app_l. exact (IH i x H).
Qed.

Lemma infix_concat_nth l : forall i x, nth_error l i = Some x -> infix_of x (List.concat l).
Proof.
  induction l as [|y l IH]; intros i x H; [destruct i; discriminate|].
  cbn [List.concat]. destruct i as [|i].
  - injection H as ->. apply infix_app_r. apply infix_refl.
  - apply infix_app_l. exact (IH i x H).
Qed.

Lemma infix_cons_l a b c : infix_of a b -> infix_of a (c :: b).
Proof. intro H. change (c :: b) with ([c] ++ b). now apply infix_app_l. Qed.

Theorem format_entries_shows_entry red es i fe :
  nth_error es i = Some fe ->
  infix_of (entry_text red (N.of_nat (S i)) fe) (format_entries red es) /\
  infix_of (type_item (N.of_nat (S i)) fe) (format_entries red es).
Proof.
  intro H. destruct es as [|fe0 r]; [destruct i; discriminate|].
  rewrite format_entries_layout.
  replace (N.of_nat (S i)) with (1 + N.of_nat i) by lia. split.
  - apply infix_app_l. apply infix_cons_l. apply infix_app_r.
    apply (infix_join_nth _ i). now apply entry_lines_nth.
  - apply infix_app_l. apply infix_cons_l. apply infix_app_l. apply infix_cons_l.
    apply infix_app_l. apply (infix_concat_nth _ i). now apply type_items_nth.
Qed.

(* ================================================================== *)
(* 2. state.Write into the detail buffer, closed form                   *)
(* ================================================================== *)
(* HiddenVisible.dind is the layout once the detail buffer holds a byte.  Before that
   (notEmpty = false) the engine behaves differently: pending newlines are only
   materialised when the SECOND byte of the text arrives, in front of the first one. *)
Definition all_nl (s : str) : bool := forallb (fun c => c =? nl) s.

Fixpoint dfirst (n : nat) (s : str) : str :=
  match s with
  | [] => []
  | c :: r =>
    if c =? nl then dfirst (S n) r
    else match r with
         | [] => [c]
         | c2 :: r' => if c2 =? nl then c :: dind (S n) r' else nl_fill n ++ c :: dind 0 r
         end
  end.

Fixpoint nnf (n : nat) (s : str) : nat :=
  match s with
  | [] => n
  | c :: r =>
    if c =? nl then nnf (S n) r
    else match r with
         | [] => n
         | c2 :: r' => if c2 =? nl then nn_after (S n) r' else nn_after 0 r
         end
  end.

Lemma write_loop_first b : forall st,
  fs_hasDetail st = true -> fs_wantDetail st = true -> fs_notEmpty st = false ->
  write_loop b st [] =
  mkst (fs_redout st) (fs_plus st) (fs_entries st) (fs_buf st ++ dfirst (fs_needNewline st) b)
       (fs_headbuf st) (fs_last st) true true (negb (all_nl b)) (nnf (fs_needNewline st) b).
Proof.
  induction b as [|c r IH]; intros st H1 H2 H3;
    destruct st as [ro pl es bf hb la hd wd ne nn]; fsimp_in H1; fsimp_in H2; fsimp_in H3; subst hd wd ne.
  - cbn [write_loop dfirst nnf all_nl forallb negb rev]. fsimp. now rewrite !app_nil_r.
  - destruct (c =? nl) eqn:Ec.
    + cbn [write_loop dfirst nnf all_nl forallb]. rewrite Ec.
      fsimp. rewrite IH by reflexivity. fsimp. cbn [rev andb]. now rewrite app_nil_r.
    + destruct r as [|c2 r'].
      * cbn [write_loop dfirst nnf all_nl forallb]. rewrite Ec.
        fsimp. rewrite andb_false_r. cbn [andb negb rev app]. fsimp. reflexivity.
      * destruct (c2 =? nl) eqn:E2.
        -- cbn [write_loop dfirst nnf all_nl forallb]. rewrite Ec, E2.
           fsimp. rewrite andb_false_r. cbn [andb negb]. fsimp.
           rewrite write_loop_detail by (try reflexivity; intros _; reflexivity).
           fsimp. cbn [rev app]. now rewrite <- !app_assoc.
        -- rewrite write_loop_detail2 by (assumption || reflexivity).
           cbn [dfirst nnf all_nl forallb]. rewrite Ec, E2. fsimp.
           cbn [dind nn_after andb negb]. rewrite E2. cbn [nl_fill Nat.eqb app]. reflexivity.
Qed.

(* the part of the state that Write transforms, in detail mode *)
Definition dw (x : str * bool * nat) (b : str) : str * bool * nat :=
  let '(buf, ne, nn) := x in
  if ne then (buf ++ dind nn b, true, nn_after nn b)
  else (buf ++ dfirst nn b, negb (all_nl b), nnf nn b).

Definition dst (st : fstate) (x : str * bool * nat) : fstate :=
  let '(buf, ne, nn) := x in
  mkst (fs_redout st) (fs_plus st) (fs_entries st) buf (fs_headbuf st) (fs_last st) true true ne nn.

Lemma st_write_dw st b :
  fs_hasDetail st = true -> fs_wantDetail st = true ->
  st_write st b = dst st (dw (fs_buf st, fs_notEmpty st, fs_needNewline st) b).
Proof.
  intros H1 H2. destruct (fs_notEmpty st) eqn:H3.
  - rewrite st_write_detail by assumption. reflexivity.
  - destruct b as [|c r].
    + destruct st as [ro pl es bf hb la hd wd ne nn]; fsimp_in H1; fsimp_in H2; fsimp_in H3; subst hd wd ne.
      cbn [st_write dw dfirst nnf all_nl forallb negb dst]. fsimp. now rewrite app_nil_r.
    + unfold st_write. rewrite write_loop_first by assumption. reflexivity.
Qed.

Lemma fold_st_write_dw ws : forall st x,
  fs_hasDetail st = true -> fs_wantDetail st = true ->
  x = (fs_buf st, fs_notEmpty st, fs_needNewline st) ->
  fold_left st_write ws st = dst st (fold_left dw ws x).
Proof.
  induction ws as [|b ws IH]; intros st x H1 H2 ->; cbn [fold_left].
  - destruct st as [ro pl es bf hb la hd wd ne nn]; fsimp_in H1; fsimp_in H2; subst hd wd. reflexivity.
  - rewrite st_write_dw by assumption.
    destruct (dw (fs_buf st, fs_notEmpty st, fs_needNewline st) b) as [[bf' ne'] nn'] eqn:E.
    rewrite (IH _ (bf', ne', nn')); reflexivity.
Qed.

(* the detail text made of the successive writes [ws], starting from an empty entry *)
Definition dlayout (ws : list str) : str := fst (fst (fold_left dw ws ([], false, 0%nat))).

(* a text without newline is written as it is *)
Lemma dfirst_plain t : no_nl t = true -> dfirst 0 t = t.
Proof.
  intro H. destruct t as [|c [|c2 r]]; [reflexivity| |].
  - cbn [no_nl forallb] in H. apply andb_true_iff in H as [Hc _]. apply negb_true_iff in Hc.
    cbn [dfirst]. now rewrite Hc.
  - cbn [no_nl forallb] in H. apply andb_true_iff in H as [Hc H]. apply negb_true_iff in Hc.
    pose proof H as H'. cbn [forallb] in H'. apply andb_true_iff in H' as [Hc2 _]. apply negb_true_iff in Hc2.
    cbn [dfirst]. rewrite Hc, Hc2. cbn [nl_fill Nat.eqb app]. f_equal.
    replace (c2 :: r) with ((c2 :: r) ++ []) at 1 by apply app_nil_r.
    rewrite dind_plain by exact H. cbn [dind]. now rewrite app_nil_r.
Qed.

Lemma dlayout_plain t : no_nl t = true -> dlayout [t] = t.
Proof. intro H. unfold dlayout. cbn [fold_left dw fst app]. now apply dfirst_plain. Qed.

(* a tidy text (no empty line, no trailing newline) that does not start with a newline:
   every newline is followed by the margin *)
Lemma dfirst_tidy c r :
  (c =? nl) = false -> tidy (c :: r) = true -> dfirst 0 (c :: r) = replace_nl (c :: r) detail_sep.
Proof.
  intros Hc Ht. cbn [tidy] in Ht. rewrite Hc in Ht.
  cbn [dfirst replace_nl]. rewrite Hc.
  destruct r as [|c2 r']; [reflexivity|].
  destruct (c2 =? nl) eqn:E2.
  - cbn [tidy] in Ht. rewrite E2 in Ht. destruct r' as [|d r'']; [discriminate|].
    apply andb_true_iff in Ht as [Hd Ht]. apply negb_true_iff in Hd.
    destruct (dind_tidy _ Ht) as [_ I2]. rewrite (I2 d r'' eq_refl Hd).
    cbn [replace_nl]. rewrite E2. reflexivity.
  - cbn [nl_fill Nat.eqb app]. destruct (dind_tidy _ Ht) as [I1 _]. now rewrite I1.
Qed.

Lemma dlayout_tidy c r :
  (c =? nl) = false -> tidy (c :: r) = true -> dlayout [c :: r] = replace_nl (c :: r) detail_sep.
Proof. intros Hc Ht. unfold dlayout. cbn [fold_left dw fst app]. now apply dfirst_tidy. Qed.

(* ================================================================== *)
(* 3. what each library wrapper prints under p.Detail()                 *)
(* ================================================================== *)
Fixpoint tag_writes (tags : list (str * tagval)) (first : bool) : list str :=
  match tags with
  | [] => []
  | kv :: r =>
    (if first then [] else [sprint_pieces [PLit (lit ",")]]) ++
    sprint_pieces [PRaw (tag_redactable kv)] :: tag_writes r false
  end.

Fixpoint safe_detail_writes (ds : list str) (comma : str) : list str :=
  match ds with
  | [] => []
  | d :: r => sprint_pieces [PSafe comma; PSafe d] :: safe_detail_writes r [nl]
  end.

(* the successive Write calls (one per Print / Printf) of the wrapper's detail part *)
Definition wrap_detail_writes (w : wlayer) : option (list str) :=
  match w with
  | WStack _ => Some [sprint_pieces [PLit (lit "attached stack trace")]]
  | WHint h => Some [h]
  | WDetail d => Some [d]
  | WIssueLink url det =>
    Some ((match url with [] => [] | _ => [sprint_pieces [PLit (lit "issue: "); PSafe url]] end) ++
          (match det with
           | [] => []
           | _ => [sprint_pieces [PSafe (match url with [] => [] | _ => [nl] end);
                                  PLit (lit "detail: "); PSafe det]]
           end))
  | WTelemetry keys => Some [sprint_pieces [PLit (lit "keys: ["); PSafe (join [sp] keys); PLit (lit "]")]]
  | WDomain d => Some [sprint_pieces [PSafe d]]
  | WContext tags _ =>
    Some (match tags with
          | [] => []
          | _ => sprint_pieces [PLit (lit "tags: [")] :: tag_writes tags true ++ [sprint_pieces [PLit (lit "]")]]
          end)
  | WAssert => Some [sprint_pieces [PLit (lit "assertion failure")]]
  | WMark m =>
    Some [sprint_pieces [PLit (lit "forced error mark" ++ [nl])]; mark_text m]
  | WSafeDetails ds =>
    Some (if Nat.eqb (List.length ds) 1 then safe_detail_writes ds []
          else sprint_pieces [PSafe (dec_of_N (N.of_nat (List.length ds))); PLit (lit " safe detail");
                              PSafe (lit "s"); PLit (lit " enclosed")]
               :: safe_detail_writes ds [nl])
  | WHTTP code => Some [sprint_pieces [PLit (lit "http code: "); PUnsafe (dec_of_Z code)]]
  | WGrpc code => Some [sprint_pieces [PLit (lit "gRPC code: "); PSafe (grpc_code_name code)]]
  | _ => None
  end.

(* is the wrapper's buffer redactable (SafeFormatError) or plain (FormatError: hints and details)? *)
Definition wrap_red (w : wlayer) : bool :=
  match w with WHint _ | WDetail _ => false | _ => true end.

Lemma print_tags_writes tags : forall st first,
  print_tags st tags first = fold_left st_write (tag_writes tags first) st.
Proof.
  induction tags as [|kv r IH]; intros st first; cbn [print_tags tag_writes]; [reflexivity|].
  rewrite fold_left_app. cbn [fold_left]. rewrite IH. destruct first; reflexivity.
Qed.

Lemma print_safe_details_writes ds : forall st comma,
  print_safe_details st ds comma = fold_left st_write (safe_detail_writes ds comma) st.
Proof.
  induction ds as [|d r IH]; intros st comma; cbn [print_safe_details safe_detail_writes fold_left];
    [reflexivity|]. now rewrite IH.
Qed.

(* the state a node's own part starts from, and the one after p.Detail() *)
Definition fresh (ro pl : bool) (es : list fentry) (la : stack) (d : bool) : fstate :=
  mkst ro pl es [] [] la false d false 0.
Definition fresh_detail (ro pl : bool) (es : list fentry) (la : stack) : fstate :=
  mkst ro pl es [] [] la true true false 0.

Lemma fl_cons {A B} (f : A -> B -> A) x l a : fold_left f (x :: l) a = fold_left f l (f a x).
Proof. reflexivity. Qed.
Lemma fl_nil {A B} (f : A -> B -> A) a : fold_left f [] a = a.
Proof. reflexivity. Qed.

Lemma st_detail_fresh ro pl es la :
  st_detail (fresh ro pl es la true) = (fresh_detail ro pl es la, true).
Proof. reflexivity. Qed.

(* (proofs by rewriting only: conversion on terms that contain closed strings is slow) *)
Lemma wrap_body_detail w ws ro pl es la :
  wrap_detail_writes w = Some ws ->
  wrap_body w (fresh ro pl es la true) =
  Some (fold_left st_write ws (fresh_detail ro pl es la), false, wrap_red w).
Proof.
  destruct w; cbn [wrap_detail_writes]; intro H; try discriminate; injection H as <-;
    cbn [wrap_body wrap_red]; unfold if_detail; rewrite ?st_detail_fresh; unfold sp_print, pl_print; cbv zeta.
  - rewrite fl_cons, fl_nil. reflexivity.
  - rewrite fl_cons, fl_nil. reflexivity.
  - rewrite fl_cons, fl_nil. reflexivity.
  - destruct url, det; cbn [app]; rewrite ?fl_cons, fl_nil; reflexivity.
  - rewrite fl_cons, fl_nil. reflexivity.
  - rewrite fl_cons, fl_nil. reflexivity.
  - destruct tags as [|kv r]; cbn [andb negb].
    + rewrite fl_nil. reflexivity.
    + rewrite print_tags_writes. unfold sp_print. rewrite fl_cons, fold_left_app, fl_cons, fl_nil. reflexivity.
  - rewrite fl_cons, fl_nil. reflexivity.
  - unfold mark_text, mark_first_type. rewrite !fl_cons, fl_nil. reflexivity.
  - destruct (Nat.eqb (List.length ds) 1); rewrite print_safe_details_writes; unfold sp_print;
      rewrite ?fl_cons; reflexivity.
  - rewrite fl_cons, fl_nil. reflexivity.
  - rewrite fl_cons, fl_nil. reflexivity.
Time Qed.

(* ================================================================== *)
(* 4. the entries of the engine run: order, types, depths, own details  *)
(* ================================================================== *)
(* the order in which formatEntries prints the layers: the node, then (the engine
   appends the branches in order and prints the entry list backwards) its branches
   from the last to the first, then its single cause *)
Fixpoint engine_order (e : err) : list err :=
  e :: match e with
       | Wrap _ _ c | Second _ c _ | OWrap _ _ _ _ c => engine_order c
       | Multi _ _ cs | OLeaf _ _ _ cs => fold_right (fun c acc => acc ++ engine_order c) [] cs
       | _ => []
       end.

(* entry.depth: 0 outside multi-cause branches, the depth in the tree inside *)
Fixpoint depths (e : err) (w : bool) (k : nat) : list nat :=
  (if w then k else 0%nat) ::
  match e with
  | Wrap _ _ c | Second _ c _ | OWrap _ _ _ _ c => depths c w (S k)
  | Multi _ _ cs | OLeaf _ _ _ cs => fold_right (fun c acc => acc ++ depths c true (S k)) [] cs
  | _ => []
  end.

Definition kids_order (single : option err) (cs : list err) : list err :=
  fold_right (fun c acc => acc ++ engine_order c) [] cs ++
  match single with Some c => engine_order c | None => [] end.

Definition kids_depths (single : option err) (cs : list err) (w : bool) (k : nat) : list nat :=
  fold_right (fun c acc => acc ++ depths c true (S k)) [] cs ++
  match single with Some c => depths c w (S k) | None => [] end.

Definition wrap_shown (w : wlayer) (ro : bool) (t : str) : str :=
  if wrap_red w then shown ro t else t.

(* what the entry of a library wrapper with a detail looks like *)
Definition detail_clause (ro : bool) (fe : fentry) (x : err) : Prop :=
  match x with
  | Wrap _ w _ =>
    match wrap_detail_writes w with
    | Some ws => fe_head fe = [] /\ fe_details fe = wrap_shown w ro (dlayout ws) /\
                 fe_red fe = wrap_red w && ro
    | None => True
    end
  | _ => True
  end.

(* a withStack layer keeps its stack trace: the frames not shared with the trace printed
   below it (at least the first one) *)
Definition stack_clause (fe : fentry) (x : err) : Prop :=
  match x with
  | Wrap _ (WStack stk) _ =>
    exists n, fe_stack fe = Some (firstn n stk) /\ (stk <> [] -> (1 <= n)%nat)
  | _ => True
  end.

Definition own_clause (d ro : bool) (fe : fentry) (x : err) : Prop :=
  fe_ty fe = go_type_string x /\ stack_clause fe x /\ (d = true -> detail_clause ro fe x).

Definition node_inv (x : err) : Prop :=
  forall d o w k st, fs_buf st = [] ->
    exists Ec, fs_entries (fst (ns_fmt (sem x) o d w k st)) = Ec ++ fs_entries st /\
               snd (ns_fmt (sem x) o d w k st) = List.length Ec /\
               Forall2 (own_clause d (fs_redout st)) Ec (engine_order x) /\
               List.map fe_depth Ec = depths x w k.

(* ---- marking entries as elided touches nothing else ---- *)
Lemma mark_first_app n Ec old : n = List.length Ec -> mark_first n (Ec ++ old) = mark_first n Ec ++ old.
Proof.
  intros ->. induction Ec as [|e Ec IH]; cbn [List.length mark_first app].
  - destruct old; reflexivity.
  - now rewrite IH.
Qed.

Lemma mark_first_clause d ro n : forall Ec xs,
  Forall2 (own_clause d ro) Ec xs -> Forall2 (own_clause d ro) (mark_first n Ec) xs.
Proof.
  induction n as [|n IH]; intros Ec xs H; [destruct Ec; exact H|].
  destruct H as [|fe x Ec xs Hx H]; cbn [mark_first]; constructor; [|now apply IH].
  destruct Hx as (T & S & D). split; [exact T|]. split.
  - unfold stack_clause in *. destruct x; try exact I. destruct w; exact S.
  - intro Hd. specialize (D Hd).
    unfold detail_clause in *. destruct x; try exact I.
    destruct (wrap_detail_writes w); exact D.
Qed.

Lemma elide_shared_firstn prev new :
  exists n, fst (elide_shared prev new) = firstn n new /\ (new <> [] -> (1 <= n)%nat).
Proof.
  unfold elide_shared. destruct prev as [|p prev].
  - exists (List.length new). cbn [fst]. rewrite firstn_all. split; [reflexivity|].
    destruct new; [congruence|cbn [List.length]; lia].
  - destruct new as [|f new].
    + exists 0%nat. split; [reflexivity|congruence].
    + cbv zeta. cbn [fst].
      match goal with |- context [firstn ?i _] => exists i end. split; [reflexivity|].
      intros _. match goal with |- context [Nat.eqb ?a 0] => destruct (Nat.eqb a 0) eqn:E end; [lia|].
      apply PeanoNat.Nat.eqb_neq in E. lia.
Qed.

Lemma mark_first_depth n : forall Ec, List.map fe_depth (mark_first n Ec) = List.map fe_depth Ec.
Proof.
  induction n as [|n IH]; intros [|e Ec]; cbn [mark_first List.map fe_depth]; try reflexivity.
  now rewrite IH.
Qed.

Lemma collect_entry_ty st ty r w k : fe_ty (collect_entry st ty r w k) = ty.
Proof.
  unfold collect_entry.
  destruct (fs_wantDetail st), (fs_hasDetail st), r, (fs_redout st); reflexivity.
Qed.

Lemma collect_entry_depth st ty r w k : fe_depth (collect_entry st ty r w k) = if w then k else 0%nat.
Proof.
  unfold collect_entry.
  destruct (fs_wantDetail st), (fs_hasDetail st), r, (fs_redout st); reflexivity.
Qed.

(* ---- the multi-cause loop ---- *)
Lemma fold_multi_inv d depth cs :
  Forall node_inv cs ->
  forall acc, fs_buf (fst acc) = [] ->
    let r := fold_left
      (fun (acc : fstate * nat) (k : nsem) =>
         let '(s', m) := ns_fmt k false d true (S depth) (fst acc) in (s', (snd acc + m)%nat))
      (List.map sem cs) acc in
    exists Ec, fs_entries (fst r) = Ec ++ fs_entries (fst acc) /\
               snd r = (snd acc + List.length Ec)%nat /\
               Forall2 (own_clause d (fs_redout (fst acc))) Ec
                       (fold_right (fun c a => a ++ engine_order c) [] cs) /\
               List.map fe_depth Ec = fold_right (fun c a => a ++ depths c true (S depth)) [] cs /\
               fs_buf (fst r) = [] /\ fs_redout (fst r) = fs_redout (fst acc).
Proof.
  induction 1 as [|c cs Hc Hcs IH]; intros acc Hb; cbn [List.map fold_left fold_right].
  - cbv zeta. exists []. cbn [app List.length List.map]. repeat split; try reflexivity; [lia|constructor|exact Hb].
  - cbv zeta.
    destruct (Hc d false true (S depth) (fst acc) Hb) as (Ec1 & E1 & N1 & F1 & D1).
    pose proof (fmt_buf_nil c false d true (S depth) (fst acc)) as B1.
    pose proof (fmt_redout c false d true (S depth) (fst acc)) as R1.
    destruct (ns_fmt (sem c) false d true (S depth) (fst acc)) as [s' m]. cbn [fst snd] in *.
    destruct (IH (s', (snd acc + m)%nat) B1) as (Ec2 & E2 & N2 & F2 & D2 & B2 & R2).
    cbv zeta in *. cbn [fst snd] in *.
    exists (Ec2 ++ Ec1). rewrite E2, N2, R2, E1, R1, app_length, map_app, D2, D1.
    repeat split; try reflexivity; [now rewrite app_assoc|lia| |exact B2].
    apply Forall2_app; [rewrite <- R1; exact F2|exact F1].
Qed.

(* ---- the skeleton ---- *)
Lemma format_node_inv x single cs own body :
  match single with Some c => node_inv c | None => True end ->
  Forall node_inv cs ->
  engine_order x = x :: kids_order single cs ->
  (forall w k, depths x w k = (if w then k else 0%nat) :: kids_depths single cs w k) ->
  (forall o st, fs_entries (br_st (body o st)) = fs_entries st) ->
  match x with
  | Wrap _ (WStack stk) _ => own = Some stk /\ (forall o st, br_seen (body o st) = false)
  | _ => True
  end ->
  (forall o ro pl es la n2 w k,
     let r := body o (fresh ro pl es la true) in
     let st4 := if br_elide r then elide_short (br_st r) n2 else br_st r in
     detail_clause ro (collect_entry st4 (go_type_string x) (br_red r) w k) x) ->
  forall d o w k st, fs_buf st = [] ->
    let f := format_node (go_type_string x) (match single with Some c => Some (sem c) | None => None end)
                         (List.map sem cs) own body in
    exists Ec, fs_entries (fst (f o d w k st)) = Ec ++ fs_entries st /\
               snd (f o d w k st) = List.length Ec /\
               Forall2 (own_clause d (fs_redout st)) Ec (engine_order x) /\
               List.map fe_depth Ec = depths x w k.
Proof.
  intros Hs Hm Ho Hd Hb Hstk Hown d o w k st B0. cbv zeta. unfold format_node.
  assert (H1 : exists st1 n1 Ec1,
             match match single with Some c => Some (sem c) | None => None end with
             | Some sc => ns_fmt sc false d w (S k) st
             | None => (st, 0%nat)
             end = (st1, n1) /\ n1 = List.length Ec1 /\
             fs_entries st1 = Ec1 ++ fs_entries st /\
             Forall2 (own_clause d (fs_redout st)) Ec1 (match single with Some c => engine_order c | None => [] end) /\
             List.map fe_depth Ec1 = (match single with Some c => depths c w (S k) | None => [] end) /\
             fs_buf st1 = [] /\ fs_redout st1 = fs_redout st).
  { destruct single as [c|].
    - destruct (Hs d false w (S k) st B0) as (Ec1 & E1 & N1 & F1 & D1).
      pose proof (fmt_buf_nil c false d w (S k) st) as B1.
      pose proof (fmt_redout c false d w (S k) st) as R1.
      destruct (ns_fmt (sem c) false d w (S k) st) as [st1 n1]. cbn [fst snd] in *.
      exists st1, n1, Ec1. repeat split; assumption.
    - exists st, 0%nat, []. repeat split; try reflexivity; [constructor|exact B0]. }
  destruct H1 as (st1 & n1 & Ec1 & -> & -> & E1 & F1 & D1 & B1 & R1).
  pose proof (fold_multi_inv d k cs Hm (st1, List.length Ec1) B1) as H2. cbv zeta in H2.
  destruct (fold_left _ (List.map sem cs) (st1, List.length Ec1)) as [st2 n2].
  cbn [fst snd] in H2. destruct H2 as (Ec2 & E2 & -> & F2 & D2 & B2 & R2).
  cbv zeta. rewrite B2.
  change (mkst (fs_redout st2) (fs_plus st2) (fs_entries st2) [] [] (fs_last st2) false d false 0)
    with (fresh (fs_redout st2) (fs_plus st2) (fs_entries st2) (fs_last st2) d).
  set (st3 := fresh (fs_redout st2) (fs_plus st2) (fs_entries st2) (fs_last st2) d).
  set (n2 := (List.length Ec1 + List.length Ec2)%nat).
  pose proof (Hb o st3) as B3.
  pose proof (Hown o (fs_redout st2) (fs_plus st2) (fs_entries st2) (fs_last st2) n2 w k) as HO.
  cbv zeta in HO.
  assert (HO' : d = true ->
                detail_clause (fs_redout st)
                  (collect_entry (if br_elide (body o st3) then elide_short (br_st (body o st3)) n2
                                  else br_st (body o st3)) (go_type_string x) (br_red (body o st3)) w k) x).
  { intros ->. rewrite <- R1, <- R2. exact HO. }
  assert (E3 : fs_entries st3 = fs_entries st2) by reflexivity.
  assert (Hseen : match x with Wrap _ (WStack stk) _ => own = Some stk /\ br_seen (body o st3) = false | _ => True end).
  { destruct x; try exact I. destruct w0; try exact I. destruct Hstk as [A B]. split; [exact A|apply B]. }
  clear HO Hstk. clearbody st3.
  destruct (body o st3) as [bst bred bel bseen]. cbn [br_st br_elide br_red br_seen] in *.
  set (st4 := if bel then elide_short bst n2 else bst) in *.
  assert (E4 : fs_entries st4 = (if bel then mark_first n2 (Ec2 ++ Ec1) else Ec2 ++ Ec1) ++ fs_entries st).
  { subst st4. destruct bel; [unfold elide_short; cbn [fs_entries set_entries]|];
      rewrite B3, E3, E2; cbn [fst]; rewrite E1, app_assoc; [|reflexivity].
    apply mark_first_app. subst n2. rewrite app_length. lia. }
  set (Ek := if bel then mark_first n2 (Ec2 ++ Ec1) else Ec2 ++ Ec1) in *.
  assert (Lk : List.length Ek = n2).
  { subst Ek n2. destruct bel; [rewrite mark_first_length|]; rewrite app_length; lia. }
  assert (Fk : Forall2 (own_clause d (fs_redout st)) Ek (kids_order single cs)).
  { assert (F0 : Forall2 (own_clause d (fs_redout st)) (Ec2 ++ Ec1) (kids_order single cs)).
    { unfold kids_order. apply Forall2_app; [|exact F1]. cbn [fst] in F2. rewrite R1 in F2. exact F2. }
    subst Ek. destruct bel; [now apply mark_first_clause|exact F0]. }
  assert (Dk : List.map fe_depth Ek = kids_depths single cs w k).
  { subst Ek. destruct bel; [rewrite mark_first_depth|]; rewrite map_app, D2, D1; reflexivity. }
  set (e0 := collect_entry st4 (go_type_string x) bred w k) in *.
  assert (T0 : fe_ty e0 = go_type_string x) by apply collect_entry_ty.
  assert (P0 : fe_depth e0 = if w then k else 0%nat) by apply collect_entry_depth.
  assert (Fin : forall e1 st5,
             fe_ty e1 = fe_ty e0 -> fe_head e1 = fe_head e0 -> fe_details e1 = fe_details e0 ->
             fe_red e1 = fe_red e0 -> fe_depth e1 = fe_depth e0 -> fs_entries st5 = fs_entries st4 ->
             stack_clause e1 x ->
             exists Ec, fs_entries (fst (set_buf (set_entries st5 (e1 :: fs_entries st5)) [], S n2)) = Ec ++ fs_entries st /\
                        snd (set_buf (set_entries st5 (e1 :: fs_entries st5)) [], S n2) = List.length Ec /\
                        Forall2 (own_clause d (fs_redout st)) Ec (engine_order x) /\
                        List.map fe_depth Ec = depths x w k).
  { intros e1 st5 X1 X2 X3 X4 X5 X6 X7. exists (e1 :: Ek).
    cbn [fst snd set_buf set_entries fs_entries]. rewrite X6, E4, Ho, Hd. cbn [List.length List.map].
    rewrite Lk, Dk, X5, P0. repeat split; try reflexivity.
    constructor; [|exact Fk]. split; [congruence|]. split; [exact X7|].
    intro Hdd. specialize (HO' Hdd). unfold detail_clause in *. destruct x; try exact I.
    destruct (wrap_detail_writes w0); [|exact I]. rewrite X2, X3, X4. exact HO'. }
  destruct bseen.
  { apply Fin; try reflexivity. unfold stack_clause. destruct x; try exact I. destruct w0; try exact I.
    destruct Hseen as [_ X]. discriminate X. }
  destruct own as [stk|].
  - pose proof (elide_shared_firstn (fs_last st4) stk) as ES.
    destruct (elide_shared (fs_last st4) stk) as [s' el]. cbn [fst] in ES.
    apply Fin; try reflexivity. unfold stack_clause. destruct x; try exact I. destruct w0; try exact I.
    destruct Hseen as [X _]. injection X as <-. cbn [fe_stack]. destruct ES as (n & -> & Hn). now exists n.
  - apply Fin; try reflexivity. unfold stack_clause. destruct x; try exact I. destruct w0; try exact I.
    destruct Hseen as [X _]. discriminate X.
Qed.

(* ---- the own entry of a wrapper with a detail ---- *)
Lemma collect_detail_entry ro pl es la ws ty red w k :
  collect_entry (fold_left st_write ws (fresh_detail ro pl es la)) ty red w k =
  mkentry ty (red && ro) [] (if red then shown ro (dlayout ws) else dlayout ws) false None false
          (if w then k else 0%nat).
Proof.
  rewrite (fold_st_write_dw ws _ ([], false, 0%nat)) by reflexivity.
  unfold dlayout. destruct (fold_left dw ws ([], false, 0%nat)) as [[bf ne] nn].
  destruct red, ro; reflexivity.
Qed.

Lemma wrap_own_clause i w c (alt : body_res) ro pl es la n2 wd k :
  let r := match wrap_body w (fresh ro pl es la true) with
           | Some (st1, next_nil, red) => mkbody st1 red next_nil false
           | None => alt
           end in
  let st4 := if br_elide r then elide_short (br_st r) n2 else br_st r in
  detail_clause ro (collect_entry st4 (go_type_string (Wrap i w c)) (br_red r) wd k) (Wrap i w c).
Proof.
  cbv zeta. unfold detail_clause. destruct (wrap_detail_writes w) as [ws|] eqn:E; [|exact I].
  rewrite (wrap_body_detail _ _ _ _ _ _ E). cbn [br_elide br_st br_red].
  rewrite collect_detail_entry. cbn [fe_head fe_details fe_red]. unfold wrap_shown.
  repeat split.
Qed.

(* ---- the induction ---- *)
Ltac fs_case2 :=
  match goal with
  | |- context [format_simple ?s ?t ?c] =>
    let HF := fresh "HF" in
    pose proof (format_simple_se s t c) as HF;
    destruct (format_simple s t c); exact HF
  end.

Lemma sem_inv e : node_inv e.
Proof.
  induction e using err_ind'; intros dd oo ww kk st B0.
  - (* Leaf *)
    cbn [sem ns_fmt].
    apply (format_node_inv (Leaf i k) None []); try exact B0; try exact I;
      [constructor|reflexivity|reflexivity| |intros; exact I].
    intros o' st'. destruct k as [| | | | | |m url det| | | | |]; try apply default_body_se.
    + destruct (negb o'); [cbn [br_st set_last fs_entries]; apply fundamental_format_se|]. fs_case2.
    + unfold body_safe. cbn [br_st]. apply sp_print_se.
    + unfold body_safe. cbn [br_st]. rewrite if_detail_se; [apply sp_print_se|].
      intros s0. destruct url, det; se.
  - (* Wrap *)
    cbn [sem ns_fmt].
    apply (format_node_inv (Wrap i w e) (Some e) []); try exact B0;
      [exact IHe|constructor|reflexivity|reflexivity| | |].
    + intros o' st'. pose proof (wrap_body_se w st') as HW.
      destruct (wrap_body w st') as [[[st1 nn] red]|]; [exact HW|].
      destruct w; try apply default_body_se; fs_case2.
    + destruct w; try exact I. split; [reflexivity|]. intros o' st'. reflexivity.
    + intros o' ro pl es la n2 wd k1. apply wrap_own_clause.
  - (* Second *)
    cbn [sem ns_fmt].
    apply (format_node_inv (Second i e1 e2) (Some e1) []); try exact B0; try exact I;
      [exact IHe1|constructor|reflexivity|reflexivity| |intros; exact I].
    intros o' st'. unfold body_safe. cbn [br_st]. apply if_detail_se. intros s0. apply sp_print_se.
  - (* Barrier *)
    cbn [sem ns_fmt].
    apply (format_node_inv (Barrier i m e) None []); try exact B0; try exact I;
      [constructor|reflexivity|reflexivity| |intros; exact I].
    intros o' st'. unfold body_safe. cbn [br_st].
    rewrite if_detail_se; [apply sp_print_se|]. intros s0. apply sp_print_se.
  - (* Multi *)
    assert (EO : engine_order (Multi i k cs) = Multi i k cs :: kids_order None cs).
    { cbn [engine_order]. unfold kids_order. now rewrite app_nil_r. }
    assert (ED : forall w k1, depths (Multi i k cs) w k1 = (if w then k1 else 0%nat) :: kids_depths None cs w k1).
    { intros. cbn [depths]. unfold kids_depths. now rewrite app_nil_r. }
    destruct k; cbn [sem ns_fmt].
    + apply (format_node_inv (Multi i MJoin cs) None cs); try exact B0; try exact I;
        [exact H|exact EO|exact ED| |intros; exact I].
      intros o' st'. unfold body_safe. cbn [br_st].
      rewrite fold_left_snd_se; [reflexivity|].
      intros acc x. cbn [snd]. rewrite sp_print_se.
      destruct (fst acc); [reflexivity|apply sp_print_se].
    + apply (format_node_inv (Multi i MStdJoin cs) None cs); try exact B0; try exact I;
        [exact H|exact EO|exact ED| |intros; exact I].
      intros o' st'. apply default_body_se.
    + apply (format_node_inv (Multi i (MFmtWraps msg) cs) None cs); try exact B0; try exact I;
        [exact H|exact EO|exact ED| |intros; exact I].
      intros o' st'. apply default_body_se.
  - (* OLeaf *)
    assert (EO : engine_order (OLeaf i m d cs) = OLeaf i m d cs :: kids_order None cs).
    { cbn [engine_order]. unfold kids_order. now rewrite app_nil_r. }
    assert (ED : forall w k1, depths (OLeaf i m d cs) w k1 = (if w then k1 else 0%nat) :: kids_depths None cs w k1).
    { intros. cbn [depths]. unfold kids_depths. now rewrite app_nil_r. }
    cbn [sem ns_fmt].
    apply (format_node_inv (OLeaf i m d cs) None cs); try exact B0; try exact I;
      [exact H|exact EO|exact ED| |intros; exact I].
    intros o' st'. unfold body_safe. cbn [br_st].
    rewrite if_detail_se; [apply sp_print_se|]. intros s0. apply opaque_details_se.
  - (* OWrap *)
    cbn [sem ns_fmt].
    apply (format_node_inv (OWrap i p d mt e) (Some e) []); try exact B0; try exact I;
      [exact IHe|constructor|reflexivity|reflexivity| |intros; exact I].
    intros o' st'. unfold body_safe. cbn [br_st].
    rewrite if_detail_se; [|intros s0; apply opaque_details_se].
    destruct p; [reflexivity|apply sp_print_se].
Qed.

(* ================================================================== *)
(* 5. the verbose rendering of an error                                 *)
(* ================================================================== *)
(* the entries of the engine run behind %+v (redactable output [red]) *)
Definition ventries (e : err) (red : bool) : list fentry :=
  fs_entries (fst (ns_fmt (sem e) true true false 0%nat (st_init red true))).

Lemma final_verbose_ventries e red : final_verbose (sem e) red = format_entries red (ventries e red).
Proof.
  unfold final_verbose, ventries.
  destruct (ns_fmt (sem e) true true false 0%nat (st_init red true)) as [st n]. reflexivity.
Qed.

(* the engine order is a rearrangement of the visit order ... *)
Lemma engine_order_perm e : Permutation (engine_order e) (visit_all e).
Proof.
  induction e using err_ind'; cbn [engine_order visit_all]; try (constructor; assumption);
    try (constructor; constructor).
  - constructor. induction H as [|c cs Hc Hcs IH]; cbn [fold_right flat_map]; [constructor|].
    eapply Permutation_trans; [apply Permutation_app_comm|]. now apply Permutation_app.
  - constructor. induction H as [|c cs Hc Hcs IH]; cbn [fold_right flat_map]; [constructor|].
    eapply Permutation_trans; [apply Permutation_app_comm|]. now apply Permutation_app.
Qed.

Lemma engine_order_length e : List.length (engine_order e) = List.length (visit_all e).
Proof. apply Permutation_length, engine_order_perm. Qed.

(* ... and IS the visit order when no node has two or more branches *)
Fixpoint chainlike (e : err) : bool :=
  match e with
  | Wrap _ _ c | Second _ c _ | OWrap _ _ _ _ c => chainlike c
  | Multi _ _ cs | OLeaf _ _ _ cs =>
    match cs with [] => true | [c] => chainlike c | _ => false end
  | _ => true
  end.

Lemma engine_order_chainlike e : chainlike e = true -> engine_order e = visit_all e.
Proof.
  induction e using err_ind'; cbn [chainlike engine_order visit_all]; intro Hc; try reflexivity;
    try (f_equal; auto; fail).
  - destruct cs as [|c [|c2 cs]]; [reflexivity| |discriminate].
    inversion H as [|? ? Hx _]; subst. cbn [fold_right flat_map app]. rewrite app_nil_r. f_equal. auto.
  - destruct cs as [|c [|c2 cs]]; [reflexivity| |discriminate].
    inversion H as [|? ? Hx _]; subst. cbn [fold_right flat_map app]. rewrite app_nil_r. f_equal. auto.
Qed.

(* THE ENTRIES: one per layer, in engine order; each has the Go type of its layer, the
   depth of its layer, and (library wrappers with a detail) an empty head and the detail text *)
Theorem verbose_entries_spec e red :
  Forall2 (own_clause true red) (ventries e red) (engine_order e) /\
  List.map fe_depth (ventries e red) = depths e false 0%nat.
Proof.
  destruct (sem_inv e true true false 0%nat (st_init red true) eq_refl) as (Ec & E & _ & F & D).
  unfold ventries. rewrite E. cbn [st_init fs_entries fs_redout] in *. rewrite app_nil_r. split; assumption.
Qed.

Lemma Forall2_length' {A B} (R : A -> B -> Prop) l l' : Forall2 R l l' -> List.length l = List.length l'.
Proof. induction 1; cbn [List.length]; congruence. Qed.

Lemma Forall2_nth {A B} (R : A -> B -> Prop) l l' :
  Forall2 R l l' -> forall i y, nth_error l' i = Some y -> exists x, nth_error l i = Some x /\ R x y.
Proof.
  induction 1 as [|x y l l' Hxy H IH]; intros i z Hz; [destruct i; discriminate|].
  destruct i as [|i]; cbn [nth_error] in *.
  - injection Hz as <-. now exists x.
  - now apply IH.
Qed.

Lemma Forall2_map_eq {A B C} (R : A -> B -> Prop) (f : A -> C) (g : B -> C) l l' :
  (forall a b, R a b -> f a = g b) -> Forall2 R l l' -> List.map f l = List.map g l'.
Proof. intros Hfg. induction 1; cbn [List.map]; [reflexivity|]. f_equal; auto. Qed.

Lemma ventries_length e red : List.length (ventries e red) = List.length (visit_all e).
Proof.
  rewrite <- engine_order_length. apply (Forall2_length' _ _ _ (proj1 (verbose_entries_spec e red))).
Qed.

Lemma ventries_types e red :
  List.map fe_ty (ventries e red) = List.map go_type_string (engine_order e).
Proof.
  apply (Forall2_map_eq (own_clause true red)); [|apply verbose_entries_spec].
  intros a b [H _]. exact H.
Qed.

Lemma ventries_nonempty e red : ventries e red <> [].
Proof.
  intro H. pose proof (ventries_length e red) as L. rewrite H in L.
  destruct e; cbn [visit_all List.length] in L; discriminate.
Qed.

(* the 'Error types' items depend on the types only *)
Fixpoint type_items_of (tys : list str) (k : N) : list str :=
  match tys with
  | [] => []
  | ty :: r => (lit " (" ++ dec_of_N k ++ lit ") " ++ ty) :: type_items_of r (k + 1)
  end.

Lemma type_items_types es : forall k, type_items es k = type_items_of (List.map fe_ty es) k.
Proof. induction es as [|fe r IH]; intro k; cbn [type_items type_items_of List.map]; [reflexivity|]. now rewrite IH. Qed.

(* (1) THE LAYOUT of %+v, for every error and both output modes *)
Theorem verbose_layout e red :
  final_verbose (sem e) red =
  single_line red (ventries e red) [] ++
  nl :: join [nl] (entry_lines red (ventries e red) 1) ++
  nl :: lit "Error types:" ++
  List.concat (type_items_of (List.map go_type_string (engine_order e)) 1).
Proof.
  rewrite final_verbose_ventries, <- (ventries_types e red), <- type_items_types.
  pose proof (ventries_nonempty e red) as Hne.
  destruct (ventries e red) as [|fe r]; [contradiction|]. apply format_entries_layout.
Qed.

Corollary verbose_layout_counts e red :
  List.length (entry_lines red (ventries e red) 1) = List.length (visit_all e) /\
  List.length (type_items_of (List.map go_type_string (engine_order e)) 1) = List.length (visit_all e).
Proof.
  split; [rewrite entry_lines_length; apply ventries_length|].
  rewrite <- (ventries_types e red), <- type_items_types, type_items_length. apply ventries_length.
Qed.

(* the plain rendering fmt.Sprintf("%+v", errors.Formattable(e)) *)
Corollary plain_verbose_layout e :
  fmt_plain_verbose e =
  single_line false (ventries e false) [] ++
  nl :: join [nl] (entry_lines false (ventries e false) 1) ++
  nl :: lit "Error types:" ++
  List.concat (type_items_of (List.map go_type_string (engine_order e)) 1).
Proof. apply verbose_layout. Qed.

(* the layer at position p of the engine order: its entry, and where it is in the rendering *)
Theorem layer_entry e red p x :
  nth_error (engine_order e) p = Some x ->
  exists fe, nth_error (ventries e red) p = Some fe /\
             own_clause true red fe x /\
             nth_error (List.map fe_depth (ventries e red)) p = nth_error (depths e false 0%nat) p /\
             infix_of (entry_text red (N.of_nat (S p)) fe) (final_verbose (sem e) red) /\
             infix_of (lit " (" ++ dec_of_N (N.of_nat (S p)) ++ lit ") " ++ go_type_string x)
                      (final_verbose (sem e) red).
Proof.
  intro Hx. destruct (verbose_entries_spec e red) as [F D].
  destruct (Forall2_nth _ _ _ F p x Hx) as (fe & Hfe & Hc).
  exists fe. split; [exact Hfe|]. split; [exact Hc|]. split; [now rewrite D|].
  rewrite final_verbose_ventries.
  destruct (format_entries_shows_entry red _ p fe Hfe) as [A B]. split; [exact A|].
  unfold type_item in B. destruct Hc as [T _]. now rewrite T in B.
Qed.

(* ---- printEntry of an entry with an empty head ---- *)
Lemma print_entry_nohead red fe :
  fe_head fe = [] ->
  print_entry red fe =
  (match fe_details fe with
   | [] => []
   | c :: _ => (if c =? nl then [] else [sp]) ++ out_bytes red fe (fe_details fe)
   end) ++ entry_stack_part fe.
Proof. intro H. rewrite print_entry_parts. unfold entry_head_part, entry_details_part. now rewrite H. Qed.

(* (3) a library wrapper's own detail is in its own entry: exact form *)
Theorem wrapper_detail_in_own_entry e red p i w c ws :
  nth_error (engine_order e) p = Some (Wrap i w c) ->
  wrap_detail_writes w = Some ws ->
  exists fe, nth_error (ventries e red) p = Some fe /\
             fe_ty fe = go_type_string (Wrap i w c) /\
             fe_head fe = [] /\
             fe_details fe = wrap_shown w red (dlayout ws) /\
             fe_red fe = wrap_red w && red /\
             infix_of (entry_text red (N.of_nat (S p)) fe) (final_verbose (sem e) red) /\
             entry_text red (N.of_nat (S p)) fe =
             entry_label (N.of_nat (S p)) fe ++
             (match wrap_shown w red (dlayout ws) with
              | [] => []
              | c0 :: _ =>
                (if c0 =? nl then [] else [sp]) ++
                (if wrap_red w || negb red then wrap_shown w red (dlayout ws)
                 else escape_bytes (wrap_shown w red (dlayout ws)))
              end) ++ entry_stack_part fe.
Proof.
  intros Hx Hw. destruct (layer_entry e red p _ Hx) as (fe & Hfe & (T & _ & Dc) & _ & I1 & _).
  specialize (Dc eq_refl). unfold detail_clause in Dc. rewrite Hw in Dc. destruct Dc as (H1 & H2 & H3).
  exists fe. repeat split; try assumption.
  unfold entry_text. rewrite (print_entry_nohead red fe H1), H2.
  destruct (wrap_shown w red (dlayout ws)) as [|c0 t] eqn:E; [reflexivity|].
  unfold out_bytes. rewrite H3. destruct (wrap_red w), red; reflexivity.
Qed.

(* the stack trace of a withStack layer is in its own entry *)
Theorem stack_in_own_entry e red p i stk c :
  nth_error (engine_order e) p = Some (Wrap i (WStack stk) c) ->
  exists fe n, nth_error (ventries e red) p = Some fe /\
               fe_stack fe = Some (firstn n stk) /\ (stk <> [] -> (1 <= n)%nat) /\
               entry_stack_part fe =
               nl :: lit "  -- stack trace:" ++ replace_nl (print_stack (firstn n stk)) detail_sep ++
               (if fe_elided fe then detail_sep ++ lit "[...repeated from below...]" else []).
Proof.
  intros Hx. destruct (layer_entry e red p _ Hx) as (fe & Hfe & (_ & S & _) & _).
  destruct S as (n & S1 & S2). exists fe, n. repeat split; try assumption.
  unfold entry_stack_part. now rewrite S1.
Qed.

(* ================================================================== *)
(* 6. the detail texts, kind by kind                                    *)
(* ================================================================== *)
(* a print call whose arguments are all literals / safe strings, ASCII: the bytes themselves *)
Fixpoint safe_text (ps : list piece) : option str :=
  match ps with
  | [] => Some []
  | PLit a :: r | PSafe a :: r => match safe_text r with Some b => Some (a ++ b) | None => None end
  | _ => None
  end.

Lemma fold_safe_pieces ps : forall v p t,
  safe_text ps = Some t ->
  fold_left print_piece ps (mkbuf v p SafeEscaped false) = mkbuf v (p ++ t) SafeEscaped false.
Proof.
  induction ps as [|q ps IH]; intros v p t H; cbn [safe_text] in H.
  - injection H as <-. now rewrite app_nil_r.
  - destruct q as [a|a|a|a]; try discriminate;
      (destruct (safe_text ps) as [b|] eqn:E; [|discriminate]); injection H as <-;
      cbn [fold_left]; [rewrite print_lit_step|rewrite print_safe_step];
      rewrite (IH _ _ b eq_refl), <- app_assoc; reflexivity.
Qed.

Lemma sprint_safe_pieces ps t :
  safe_text ps = Some t -> t <> [] -> ascii t = true -> sprint_pieces ps = t.
Proof.
  intros H Hne Ha. unfold sprint_pieces, print_pieces.
  change (set_mode buf_empty SafeEscaped) with (mkbuf [] [] SafeEscaped false).
  rewrite (fold_safe_pieces _ _ _ _ H). cbn [app]. now apply take_pend.
Qed.

Lemma nn_after_plain s : forall n, no_nl s = true -> nn_after n s = match s with [] => n | _ => 0%nat end.
Proof.
  induction s as [|c r IH]; intros n H; [reflexivity|].
  cbn [no_nl forallb] in H. apply andb_true_iff in H as [Hc Hr]. apply negb_true_iff in Hc.
  cbn [nn_after]. rewrite Hc. rewrite IH by exact Hr. destruct r; reflexivity.
Qed.

(* the first write of a line of at least two bytes *)
Lemma dw_first_line a :
  no_nl a = true -> (2 <= List.length a)%nat -> dw ([], false, 0%nat) a = (a, true, 0%nat).
Proof.
  intros Hn Hl. unfold dw. cbn [app]. rewrite dfirst_plain by exact Hn.
  destruct a as [|c [|c2 r]]; cbn [List.length] in Hl; try lia.
  pose proof Hn as Hn'. cbn [no_nl forallb] in Hn'. apply andb_true_iff in Hn' as [Hc Hr].
  pose proof Hr as Hr'. apply andb_true_iff in Hr' as [Hc2 _]. apply negb_true_iff in Hc, Hc2.
  cbn [all_nl forallb nnf]. rewrite Hc, Hc2. cbn [andb negb].
  rewrite nn_after_plain by exact Hr. reflexivity.
Qed.

Lemma dlayout_line a : no_nl a = true -> dlayout [a] = a.
Proof. apply dlayout_plain. Qed.

(* a line, then a print call that starts with a newline: the second line gets the margin *)
Lemma dlayout_two_lines a t :
  no_nl a = true -> (2 <= List.length a)%nat -> t <> [] -> no_nl t = true ->
  dlayout [a; nl :: t] = a ++ detail_sep ++ t.
Proof.
  intros Hn Hl Hne Ht. unfold dlayout. cbn [fold_left]. rewrite dw_first_line by assumption.
  unfold dw. cbn [fst]. cbn [dind]. rewrite N.eqb_refl. now rewrite dind1_plain.
Qed.

Lemma dec_of_N_nonempty n : dec_of_N n <> [].
Proof.
  unfold dec_of_N. cbn [dec_digits].
  destruct (n / 10 =? 0); [discriminate|apply dec_digits_nonempty; discriminate].
Qed.

Lemma dec_of_Z_unsafe_ok z : unsafe_ok (dec_of_Z z) = true.
Proof.
  destruct (dec_of_Z_ok z) as [A B]. unfold unsafe_ok, nonempty. rewrite A, B, !andb_true_r.
  destruct z as [|p|p]; cbn [dec_of_Z]; [reflexivity| |reflexivity].
  pose proof (dec_of_N_nonempty (N.pos p)). destruct (dec_of_N (N.pos p)); [contradiction|reflexivity].
Qed.

Lemma grpc_code_name_ok c : grpc_code_name c <> [] /\ ascii (grpc_code_name c) = true /\ no_nl (grpc_code_name c) = true.
Proof.
  assert (D : forall n, lit "Code(" ++ dec_of_N n ++ lit ")" <> [] /\
                        ascii (lit "Code(" ++ dec_of_N n ++ lit ")") = true /\
                        no_nl (lit "Code(" ++ dec_of_N n ++ lit ")") = true).
  { intro n. destruct (digits_ok_direct _ (dec_of_N_ok n)) as [A B].
    rewrite !ascii_app, !no_nl_app, A, B. repeat split; discriminate. }
  unfold grpc_code_name.
  repeat match goal with |- context [match ?x with _ => _ end] => destruct x end;
    solve [repeat split; discriminate | apply D].
Qed.

(* ---- the redactable detail text of each kind (what Print/Printf write), under the
        stated regularity conditions; WITHOUT conditions the text is [dlayout] of the
        writes of [wrap_detail_writes] ---- *)
Lemma detail_text_stack stk ws :
  wrap_detail_writes (WStack stk) = Some ws -> dlayout ws = lit "attached stack trace".
Proof. intro H. injection H as <-. vm_compute. reflexivity. Qed.

Lemma detail_text_assert ws :
  wrap_detail_writes WAssert = Some ws -> dlayout ws = lit "assertion failure".
Proof. intro H. injection H as <-. vm_compute. reflexivity. Qed.

Lemma detail_text_hint h ws :
  wrap_detail_writes (WHint h) = Some ws -> no_nl h = true -> dlayout ws = h.
Proof. intros H Hn. injection H as <-. now apply dlayout_plain. Qed.

Lemma detail_text_detail d ws :
  wrap_detail_writes (WDetail d) = Some ws -> no_nl d = true -> dlayout ws = d.
Proof. intros H Hn. injection H as <-. now apply dlayout_plain. Qed.

(* several lines: each further line gets the margin "  | " *)
Lemma detail_text_hint_lines c r ws :
  wrap_detail_writes (WHint (c :: r)) = Some ws -> (c =? nl) = false -> tidy (c :: r) = true ->
  dlayout ws = replace_nl (c :: r) detail_sep.
Proof. intros H Hc Ht. injection H as <-. now apply dlayout_tidy. Qed.

Lemma detail_text_detail_lines c r ws :
  wrap_detail_writes (WDetail (c :: r)) = Some ws -> (c =? nl) = false -> tidy (c :: r) = true ->
  dlayout ws = replace_nl (c :: r) detail_sep.
Proof. intros H Hc Ht. injection H as <-. now apply dlayout_tidy. Qed.

Lemma detail_text_telemetry keys ws :
  wrap_detail_writes (WTelemetry keys) = Some ws ->
  ascii (join [sp] keys) = true -> no_nl (join [sp] keys) = true ->
  dlayout ws = lit "keys: [" ++ join [sp] keys ++ lit "]".
Proof.
  intros H Ha Hn. injection H as <-.
  rewrite (sprint_safe_pieces _ (lit "keys: [" ++ join [sp] keys ++ lit "]")).
  - apply dlayout_plain. rewrite !no_nl_app, Hn. reflexivity.
  - cbn [safe_text]. now rewrite app_nil_r.
  - discriminate.
  - rewrite !ascii_app, Ha. reflexivity.
Qed.

Lemma detail_text_domain d ws :
  wrap_detail_writes (WDomain d) = Some ws -> d <> [] -> ascii d = true -> no_nl d = true ->
  dlayout ws = d.
Proof.
  intros H Hne Ha Hn. injection H as <-. rewrite sprint_safe_ascii by exact Ha. now apply dlayout_plain.
Qed.

Lemma detail_text_grpc code ws :
  wrap_detail_writes (WGrpc code) = Some ws -> dlayout ws = lit "gRPC code: " ++ grpc_code_name code.
Proof.
  intro H. injection H as <-. destruct (grpc_code_name_ok code) as (Hne & Ha & Hn).
  rewrite (sprint_safe_pieces _ (lit "gRPC code: " ++ grpc_code_name code)).
  - apply dlayout_plain. rewrite no_nl_app, Hn. reflexivity.
  - cbn [safe_text]. now rewrite app_nil_r.
  - discriminate.
  - rewrite ascii_app, Ha. reflexivity.
Qed.

Lemma sprint_lit_unsafe l s :
  l <> [] -> ascii l = true -> unsafe_ok s = true ->
  sprint_pieces [PLit l; PUnsafe s] = l ++ m_start ++ s ++ m_end.
Proof.
  intros Hne Ha Hu. unfold sprint_pieces, print_pieces. cbn [fold_left].
  change (set_mode buf_empty SafeEscaped) with (mkbuf [] [] SafeEscaped false).
  rewrite print_lit_step. cbn [app]. rewrite print_unsafe_step by assumption. cbn [app].
  replace (l ++ m_start ++ s ++ m_end) with ((l ++ m_start ++ s) ++ m_end) by now rewrite <- !app_assoc.
  apply take_end.
Qed.

Lemma detail_text_http code ws :
  wrap_detail_writes (WHTTP code) = Some ws ->
  dlayout ws = lit "http code: " ++ m_start ++ dec_of_Z code ++ m_end /\
  strip_markers (dlayout ws) = lit "http code: " ++ dec_of_Z code.
Proof.
  intro H. injection H as <-. pose proof (dec_of_Z_unsafe_ok code) as Hu.
  destruct (unsafe_ok_parts _ Hu) as (Hne & Ha & Hn).
  rewrite sprint_lit_unsafe by (discriminate || reflexivity || assumption).
  rewrite dlayout_plain by (rewrite !no_nl_app, Hn; reflexivity). split; [reflexivity|].
  replace (lit "http code: " ++ m_start ++ dec_of_Z code ++ m_end)
    with (lit "http code: " ++ m_start ++ dec_of_Z code ++ m_end ++ []) by now rewrite app_nil_r.
  rewrite strip_region by (reflexivity || assumption).
  cbn [strip_markers tokenize filter untok flat_map]. now rewrite app_nil_r.
Qed.

Lemma detail_text_issue url det ws :
  wrap_detail_writes (WIssueLink url det) = Some ws ->
  ascii url = true -> no_nl url = true -> ascii det = true -> no_nl det = true ->
  dlayout ws =
  match url, det with
  | [], [] => []
  | _, [] => lit "issue: " ++ url
  | [], _ => lit "detail: " ++ det
  | _, _ => lit "issue: " ++ url ++ detail_sep ++ lit "detail: " ++ det
  end.
Proof.
  intros H Hua Hun Hda Hdn. injection H as <-.
  destruct url as [|u url], det as [|x det]; cbn [app].
  - reflexivity.
  - rewrite (sprint_safe_pieces _ (lit "detail: " ++ x :: det)).
    + apply dlayout_plain. rewrite no_nl_app, Hdn. reflexivity.
    + cbn [safe_text app]. now rewrite app_nil_r.
    + discriminate.
    + rewrite ascii_app, Hda. reflexivity.
  - rewrite (sprint_safe_pieces _ (lit "issue: " ++ u :: url)).
    + apply dlayout_plain. rewrite no_nl_app, Hun. reflexivity.
    + cbn [safe_text]. now rewrite app_nil_r.
    + discriminate.
    + rewrite ascii_app, Hua. reflexivity.
  - rewrite (sprint_safe_pieces _ (lit "issue: " ++ u :: url)).
    2:{ cbn [safe_text]. now rewrite app_nil_r. }
    2:{ discriminate. }
    2:{ rewrite ascii_app, Hua. reflexivity. }
    rewrite (sprint_safe_pieces _ (nl :: lit "detail: " ++ x :: det)).
    2:{ cbn [safe_text app]. now rewrite app_nil_r. }
    2:{ discriminate. }
    2:{ change (nl :: lit "detail: " ++ x :: det) with ([nl] ++ lit "detail: " ++ x :: det).
        rewrite !ascii_app, Hda. reflexivity. }
    rewrite dlayout_two_lines.
    + now rewrite <- !app_assoc.
    + rewrite no_nl_app, Hun. reflexivity.
    + rewrite app_length. change (List.length (lit "issue: ")) with 7%nat. lia.
    + discriminate.
    + rewrite no_nl_app, Hdn. reflexivity.
Qed.

(* ---- "(k) <detail>" is in the rendering ---- *)
Lemma entry_label_paren k fe : exists pre, entry_label k fe = pre ++ lit "(" ++ dec_of_N k ++ lit ")".
Proof.
  unfold entry_label. destruct (k =? 1) eqn:E.
  - apply N.eqb_eq in E. subst k. exists []. reflexivity.
  - exists (indent_for (fe_depth fe) ++ lit "Wraps: "). rewrite <- !app_assoc. reflexivity.
Qed.

Theorem wrapper_detail_visible e red p i w c ws c0 t :
  nth_error (engine_order e) p = Some (Wrap i w c) ->
  wrap_detail_writes w = Some ws ->
  wrap_shown w red (dlayout ws) = c0 :: t -> (c0 =? nl) = false ->
  infix_of (lit "(" ++ dec_of_N (N.of_nat (S p)) ++ lit ") " ++
            (if wrap_red w || negb red then c0 :: t else escape_bytes (c0 :: t)))
           (final_verbose (sem e) red).
Proof.
  intros Hx Hw Ht Hc.
  destruct (wrapper_detail_in_own_entry e red p i w c ws Hx Hw) as (fe & _ & _ & _ & _ & _ & I1 & ET).
  rewrite ET, Ht, Hc in I1.
  destruct (entry_label_paren (N.of_nat (S p)) fe) as [pre Hpre]. rewrite Hpre in I1.
  destruct I1 as (a & b & ->). unfold infix_of.
  exists (a ++ pre), (entry_stack_part fe ++ b).
  change (lit ") ") with (lit ")" ++ [sp]). rewrite <- !app_assoc. reflexivity.
Qed.

(* ================================================================== *)
(* 7. examples: a 6-layer error with a join                             *)
(* ================================================================== *)
Definition ex_leaf (i : positive) (s : string) : err := Leaf i (LErrString (lit s)).

Definition ex_tree : err :=
  Wrap 1%positive (WHint (lit "h1" ++ nl :: lit "h2"))
    (Wrap 2%positive (WTelemetry [lit "k1"; lit "k2"])
      (Multi 3%positive MJoin
         [Wrap 4%positive (WDomain (lit "dom")) (ex_leaf 5%positive "x");
          Leaf 6%positive LDeadline])).

Example ex_tree_verbose :
  fmt_plain_verbose ex_tree = lit "x
(1) h1
  | h2
Wraps: (2) keys: [k1 k2]
Wraps: (3) x
  | context deadline exceeded
  └─ Wraps: (4) context deadline exceeded
  └─ Wraps: (5) dom
    └─ Wraps: (6) x
Error types: (1) *hintdetail.withHint (2) *telemetrykeys.withTelemetry (3) *join.joinError (4) context.deadlineExceededError (5) *domains.withDomain (6) *errors.errorString".
Proof. vm_compute. reflexivity. Qed.

Example ex_tree_lines :
  entry_lines false (ventries ex_tree false) 1 =
  [ lit "(1) h1" ++ nl :: lit "  | h2";
    lit "Wraps: (2) keys: [k1 k2]";
    lit "Wraps: (3) x" ++ nl :: lit "  | context deadline exceeded";
    lit "  └─ Wraps: (4) context deadline exceeded";
    lit "  └─ Wraps: (5) dom";
    lit "    └─ Wraps: (6) x" ] /\
  single_line false (ventries ex_tree false) [] = lit "x" /\
  List.map fe_depth (ventries ex_tree false) = [0; 0; 0; 3; 3; 4]%nat.
Proof. vm_compute. repeat split. Qed.

(* the order of the entries (and of the 'Error types' line) is NOT the visit order of
   Report.visit_all as soon as a node has two branches: the branches come last to first *)
Example verbose_order_not_visit_order :
  List.map go_type_string (engine_order ex_tree) =
  [ lit "*hintdetail.withHint"; lit "*telemetrykeys.withTelemetry"; lit "*join.joinError";
    lit "context.deadlineExceededError"; lit "*domains.withDomain"; lit "*errors.errorString" ] /\
  List.map go_type_string (visit_all ex_tree) =
  [ lit "*hintdetail.withHint"; lit "*telemetrykeys.withTelemetry"; lit "*join.joinError";
    lit "*domains.withDomain"; lit "*errors.errorString"; lit "context.deadlineExceededError" ] /\
  List.map fe_ty (ventries ex_tree false) <> List.map go_type_string (visit_all ex_tree).
Proof. split; [|split]; [vm_compute; reflexivity|vm_compute; reflexivity|vm_compute; discriminate]. Qed.

(* instances of the general theorems *)
Example ex_tree_hint_visible :
  infix_of (lit "(1) h1" ++ nl :: lit "  | h2") (fmt_plain_verbose ex_tree).
Proof.
  assert (T : wrap_shown (WHint (lit "h1" ++ nl :: lit "h2")) false (dlayout [lit "h1" ++ nl :: lit "h2"])
              = 104 :: lit "1" ++ nl :: lit "  | h2") by (vm_compute; reflexivity).
  exact (wrapper_detail_visible ex_tree false 0 1%positive _ _ _ _ _ eq_refl eq_refl T eq_refl).
Qed.

Example ex_tree_domain_visible :
  infix_of (lit "(5) dom") (fmt_plain_verbose ex_tree).
Proof.
  assert (T : wrap_shown (WDomain (lit "dom")) false (dlayout [sprint_pieces [PSafe (lit "dom")]]) = lit "dom")
    by (vm_compute; reflexivity).
  exact (wrapper_detail_visible ex_tree false 4 4%positive _ _ _ _ _ eq_refl eq_refl T eq_refl).
Qed.

(* the redactable rendering: hints and details are unsafe (enclosed in markers line by line) *)
Example ex_tree_red_verbose :
  fmt_red_verbose ex_tree = lit "‹x›
(1) ‹h1›
‹  | h2›
Wraps: (2) keys: [k1 k2]
Wraps: (3) ‹x›
  | context deadline exceeded
  └─ Wraps: (4) context deadline exceeded
  └─ Wraps: (5) dom
    └─ Wraps: (6) ‹x›
Error types: (1) *hintdetail.withHint (2) *telemetrykeys.withTelemetry (3) *join.joinError (4) context.deadlineExceededError (5) *domains.withDomain (6) *errors.errorString".
Proof. vm_compute. reflexivity. Qed.

(* the other kinds, in one chain *)
Definition ex_chain : err :=
  Wrap 1%positive (WIssueLink (lit "http://x/1") (lit "see there"))
    (Wrap 2%positive (WHTTP 404%Z)
      (Wrap 3%positive (WGrpc 5)
        (Wrap 4%positive WAssert
          (Wrap 5%positive (WSafeDetails [lit "sd1"; lit "sd2"])
            (Wrap 6%positive (WContext [(lit "k", TVStr (lit "v")); (lit "n", TVInt 7%Z)] None)
              (Wrap 7%positive (WDetail (lit "d"))
                (Wrap 8%positive (WStack [mkframe 1 (lit "main.f") (lit "/m.go") 10])
                  (ex_leaf 9%positive "boom")))))))).

Example ex_chain_verbose :
  fmt_plain_verbose ex_chain = lit "boom
(1) issue: http://x/1
  | detail: see there
Wraps: (2) http code: 404
Wraps: (3) gRPC code: NotFound
Wraps: (4) assertion failure
Wraps: (5) 2 safe details enclosed
  | sd1
  | sd2
Wraps: (6) tags: [kv,n7]
Wraps: (7) d
Wraps: (8) attached stack trace
  -- stack trace:
  | main.f
  | " ++ 9 :: lit "/m.go:10
Wraps: (9) boom
Error types: (1) *issuelink.withIssueLink (2) *exthttp.withHTTPCode (3) *extgrpc.withGrpcCode (4) *assert.withAssertionFailure (5) *safedetails.withSafeDetails (6) *contexttags.withContext (7) *hintdetail.withDetail (8) *withstack.withStack (9) *errors.errorString".
Proof. vm_compute. reflexivity. Qed.
