(* Facts about Is / IsAny / marks (C02, C08, C13, C14). *)
From Errv Require Import Base.Str Model.Err Model.Sem Model.Marks Model.Report Model.Run Model.Std
     Proofs.StrFacts Proofs.FastIs.
From Coq Require Import Lia.

Lemma tmark_eqb_eq a b : tmark_eqb a b = true <-> a = b.
Proof.
  destruct a as [f1 x1], b as [f2 x2]; unfold tmark_eqb; cbn.
  rewrite andb_true_iff, !str_eqb_eq. split; [intros [-> ->]; reflexivity | intros H; injection H; auto].
Qed.

Lemma tmark_eqb_refl a : tmark_eqb a a = true.
Proof. now apply tmark_eqb_eq. Qed.

Lemma list_eqb_eq {A} (eqb : A -> A -> bool) (Heq : forall a b, eqb a b = true <-> a = b) l1 l2 :
  list_eqb eqb l1 l2 = true <-> l1 = l2.
Proof.
  revert l2; induction l1 as [|x l1 IH]; intros [|y l2]; cbn; split; intro H; try reflexivity; try discriminate.
  - apply andb_true_iff in H as [H1 H2]. apply Heq in H1. apply IH in H2. now subst.
  - injection H as -> ->. apply andb_true_iff. split; [now apply Heq | now apply IH].
Qed.

(* the loop of equalMarks, once the lengths are known to agree *)
Lemma equal_marks_loop a b :
  List.length a = List.length b ->
  ((fix go (a b : list tmark) : bool :=
      match a, b with
      | x :: a', y :: b' => tmark_eqb x y && go a' b'
      | _, _ => true
      end) a b = true <-> a = b).
Proof.
  revert b; induction a as [|x a IH]; intros [|y b] Hl; cbn in *; try discriminate; split; intro H;
    try reflexivity.
  - apply andb_true_iff in H as [H1 H2]. apply tmark_eqb_eq in H1. apply IH in H2; [|lia]. now subst.
  - injection H as -> ->. rewrite tmark_eqb_refl. apply IH; [lia|reflexivity].
Qed.

(* equalMarks decides equality of marks: same message, same sequence of
   (family, extension) -- the lengths included *)
Lemma equal_marks_spec m1 m2 : equal_marks m1 m2 = true <-> m1 = m2.
Proof.
  destruct m1 as [s1 t1], m2 as [s2 t2]; unfold equal_marks; cbn [em_msg em_types].
  split.
  - intro H. apply andb_true_iff in H as [H H3]. apply andb_true_iff in H as [H1 H2].
    apply str_eqb_eq in H1. apply Nat.eqb_eq in H2. apply equal_marks_loop in H3; [|exact H2]. now subst.
  - intro H; injection H as -> ->. rewrite str_eqb_refl, Nat.eqb_refl. cbn.
    now apply equal_marks_loop.
Qed.

Lemma equal_marks_refl m : equal_marks m m = true.
Proof. now apply equal_marks_spec. Qed.

Lemma is_refl e : is_ e e = true.
Proof.
  destruct e; cbn [is_]; unfold mark_match; rewrite equal_marks_refl, orb_true_r; reflexivity.
Qed.

(* monotonicity: one more layer never loses a match *)
Lemma is_mono_wrap i w c r : is_ c r = true -> is_ (Wrap i w c) r = true.
Proof. intro H; cbn [is_]. rewrite H. now rewrite orb_true_r. Qed.
Lemma is_mono_second i c s r : is_ c r = true -> is_ (Second i c s) r = true.
Proof. intro H; cbn [is_]. rewrite H. now rewrite orb_true_r. Qed.
Lemma is_mono_owrap i p d mt c r : is_ c r = true -> is_ (OWrap i p d mt c) r = true.
Proof. intro H; cbn [is_]. rewrite H. now rewrite orb_true_r. Qed.
Lemma is_mono_multi i k cs c r : In c cs -> is_ c r = true -> is_ (Multi i k cs) r = true.
Proof.
  intros Hin H; cbn [is_]. apply orb_true_iff; right. apply existsb_exists. now exists c.
Qed.
Lemma is_mono_oleaf i m d cs c r : In c cs -> is_ c r = true -> is_ (OLeaf i m d cs) r = true.
Proof.
  intros Hin H; cbn [is_]. apply orb_true_iff; right. apply existsb_exists. now exists c.
Qed.

(* exact characterisation *)
Lemma is_char e r :
  is_ e r = true <->
  exists c, In c (visit_all e) /\ (own_match c r = true \/ get_mark c = get_mark r).
Proof.
  rewrite is_visit, existsb_exists. split; intros [c [Hin H]]; exists c; split; auto.
  - apply orb_true_iff in H as [H|H]; [now left|right]. now apply equal_marks_spec.
  - apply orb_true_iff. destruct H as [H|H]; [now left|right]. unfold mark_match. now apply equal_marks_spec.
Qed.

Lemma existsb_swap {A B} (f : A -> B -> bool) l1 l2 :
  existsb (fun a => existsb (fun b => f a b) l2) l1 = existsb (fun b => existsb (fun a => f a b) l1) l2.
Proof.
  induction l1 as [|a l1 IH]; cbn.
  - induction l2; cbn; auto.
  - rewrite IH. clear IH. induction l2 as [|b l2 IH]; cbn; [reflexivity|].
    rewrite <- IH. destruct (f a b), (existsb (fun b0 => f a b0) l2), (existsb (fun a0 => f a0 b) l1); reflexivity.
Qed.

(* IsAny is the disjunction of Is *)
Lemma is_any_spec e refs : is_any e refs = existsb (fun r => is_ e r) refs.
Proof.
  rewrite is_any_visit, existsb_swap. apply existsb_ext'. intros r _. now rewrite is_visit.
Qed.

Lemma is_opt_nil r : is_opt None r = match r with None => true | Some _ => false end.
Proof. destruct r; reflexivity. Qed.

(* Mark(e, r): matches what e matched, plus everything mark-equal to r *)
Lemma is_mark i e r x :
  is_ (mark_ i e r) x =
  (own_match (mark_ i e r) x || equal_marks (get_mark r) (get_mark x)) || is_ e x.
Proof. reflexivity. Qed.

(* multi-cause nodes: own match or some branch, in order *)
Lemma is_multi i k cs r :
  is_ (Multi i k cs) r =
  (own_match (Multi i k cs) r || mark_match (Multi i k cs) r) || existsb (fun c => is_ c r) cs.
Proof. reflexivity. Qed.

Lemma as_multi i k cs t :
  as_ (Multi i k cs) t =
  if assignable (Multi i k cs) t then Some (Multi i k cs) else first_some (fun c => as_ c t) cs.
Proof. reflexivity. Qed.

(* ---- C14: the standard library's functions against the library's ---- *)
Lemma std_is_unfold e r :
  std_is e r =
  own_match e r ||
  match e with
  | Wrap _ _ c | Second _ c _ | OWrap _ _ _ _ c => if has_unwrap e then std_is c r else false
  | Multi _ _ cs | OLeaf _ _ _ cs => existsb (fun m => std_is m r) cs
  | _ => false
  end.
Proof. destruct e; reflexivity. Qed.

Lemma is_unfold e r :
  is_ e r =
  own_match e r || mark_match e r ||
  match e with
  | Wrap _ _ c | Second _ c _ | OWrap _ _ _ _ c => is_ c r
  | Multi _ _ cs | OLeaf _ _ _ cs => existsb (fun m => is_ m r) cs
  | _ => false
  end.
Proof. destruct e; reflexivity. Qed.

Lemma std_is_implies_is e r : std_is e r = true -> is_ e r = true.
Proof.
  induction e using err_ind'; rewrite std_is_unfold, is_unfold; intro H0;
    apply orb_true_iff in H0 as [H0|H0]; try (rewrite H0; reflexivity); try discriminate.
  - destruct (has_unwrap _); [|discriminate]. rewrite (IHe H0). now rewrite orb_true_r.
  - destruct (has_unwrap _); [|discriminate]. rewrite (IHe1 H0). now rewrite orb_true_r.
  - apply orb_true_iff; right. apply existsb_exists in H0 as [c [Hin Hc]].
    apply existsb_exists. exists c. split; [assumption|]. rewrite Forall_forall in H. now apply H.
  - apply orb_true_iff; right. apply existsb_exists in H0 as [c [Hin Hc]].
    apply existsb_exists. exists c. split; [assumption|]. rewrite Forall_forall in H. now apply H.
  - destruct (has_unwrap _); [|discriminate]. rewrite (IHe H0). now rewrite orb_true_r.
Qed.

Lemma first_some_ext {A B} (f g : A -> option B) l :
  (forall x, In x l -> f x = g x) -> first_some f l = first_some g l.
Proof.
  induction l as [|x l IH]; cbn; intro H; [reflexivity|].
  rewrite (H x) by now left. destruct (g x); [reflexivity|]. apply IH. intros y Hy. apply H. now right.
Qed.

(* every wrapper of the tree exposes its cause through Unwrap() *)
Fixpoint all_unwrap (e : err) : bool :=
  match e with
  | Wrap _ _ c => has_unwrap e && all_unwrap c
  | Second _ c _ | OWrap _ _ _ _ c => all_unwrap c
  | Multi _ _ cs | OLeaf _ _ _ cs => forallb all_unwrap cs
  | _ => true
  end.

Lemma as_eq_std_as e t : all_unwrap e = true -> as_ e t = std_as e t.
Proof.
  induction e using err_ind'; cbn [as_ std_as all_unwrap]; intro Hu; try reflexivity.
  - apply andb_true_iff in Hu as [H1 H2]. rewrite H1. destruct (assignable _ _); [reflexivity|].
    destruct (as_method _ _); [reflexivity|]. now apply IHe.
  - cbn. destruct (assignable _ _); [reflexivity|]. now apply IHe1.
  - destruct (assignable _ _); [reflexivity|]. cbn [as_method]. apply first_some_ext. intros c Hc.
    rewrite Forall_forall in H. apply H; [assumption|]. rewrite forallb_forall in Hu. now apply Hu.
  - destruct (assignable _ _); [reflexivity|]. apply first_some_ext. intros c Hc.
    rewrite Forall_forall in H. apply H; [assumption|]. rewrite forallb_forall in Hu. now apply Hu.
  - cbn. destruct (assignable _ _); [reflexivity|]. now apply IHe.
Qed.

(* no multi-cause node on the chain *)
Fixpoint single_chain (e : err) : bool :=
  match e with
  | Wrap _ _ c | Second _ c _ | OWrap _ _ _ _ c => single_chain c
  | Multi _ _ _ => false
  | OLeaf _ _ _ cs => match cs with [] => true | _ => false end
  | _ => true
  end.

(* what the standard As finds, the library's As finds too, on single-cause chains
   (the library additionally follows Cause(), so it may find more) *)
Lemma std_as_implies_as_chain e t n :
  single_chain e = true -> std_as e t = Some n -> as_ e t = Some n.
Proof.
  induction e using err_ind'; cbn [as_ std_as single_chain]; intros Hm Hs;
    try (destruct (assignable _ _); [assumption|]);
    try (destruct (as_method _ _); [assumption|]); try discriminate.
  - destruct (has_unwrap _); [|discriminate]. now apply IHe.
  - now apply IHe1.
  - destruct cs; [cbn in Hs; discriminate|discriminate].
  - now apply IHe.
Qed.

Lemma std_unwrap_agrees e : has_unwrap e = true -> std_unwrap e = unwrap_once e.
Proof. unfold std_unwrap. now intros ->. Qed.

Lemma std_unwrap_multi i k cs : std_unwrap (Multi i k cs) = None /\ unwrap_once (Multi i k cs) = None.
Proof. split; reflexivity. Qed.

(* every wrapper of the single-cause chain has a Cause() method *)
Fixpoint all_cause (e : err) : bool :=
  match e with
  | Wrap _ _ c | Second _ c _ | OWrap _ _ _ _ c => has_cause e && all_cause c
  | _ => true
  end.

Lemma pkg_cause_root e : all_cause e = true -> pkg_cause e = unwrap_all e.
Proof.
  induction e using err_ind'; cbn [pkg_cause unwrap_all all_cause]; intro H0; try reflexivity.
  - apply andb_true_iff in H0 as [H1 H2]. rewrite H1. now apply IHe.
  - cbn in *. now apply IHe1.
  - cbn in *. now apply IHe.
Qed.

(* in general pkg/errors.Cause stops somewhere on the chain, above the same root *)
Lemma pkg_cause_on_chain e : In (pkg_cause e) (chain e) /\ unwrap_all (pkg_cause e) = unwrap_all e.
Proof.
  induction e using err_ind'; cbn [pkg_cause chain unwrap_all]; try (split; [now left|reflexivity]).
  - destruct (has_cause _); [|split; [now left|reflexivity]].
    destruct IHe as [H1 H2]. split; [now right|assumption].
  - cbn. destruct IHe1 as [H1 H2]. split; [now right|assumption].
  - cbn. destruct IHe as [H1 H2]. split; [now right|assumption].
Qed.
