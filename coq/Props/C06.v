(* C06 -- Redactable renderings are well-formed and congruent with plain ones.
   Statements only; proofs in Proofs/RedactWf.v, Proofs/RedactFacts.v.  Proved on
   the model of cockroachdb/redact: every printf call is well-formed for ARBITRARY
   byte contents of its arguments; for ASCII arguments the exact shape and the
   congruence with the plain text.
   The WHOLE ENGINE (Proofs/EngineWf.v): the redactable %v / %s rendering of every error
   -- every kind, any depth, arbitrary bytes in every message, hint, tag, detail, payload,
   type name -- is well-formed (balanced, not nested, balanced within every line) provided
   the redactable strings STORED in the visited nodes are well-formed (C06_engine_short);
   the %+v rendering likewise under the entry "glue" condition (C06_engine_verbose).
   These hypotheses are not cosmetic: C06_engine_refuted_* are the RECORDED FINDING
   marker-assembled-from-truncated-utf8 (known_findings.txt), found by this proof and
   then confirmed on the real code: errors built through the public API from strings with a
   truncated marker prefix at the end of a line render with an unbalanced marker. *)
From Errv Require Import Base.Str Redact.Markers Redact.Buffer Model.Err Model.Sem Model.Build Model.Report
     Proofs.RedactFacts Proofs.RedactWf Proofs.EngineWf Proofs.ApiWf Proofs.ApiWfPlus.

(* ---- for ARBITRARY BYTES (marker bytes, newlines anywhere, NUL, invalid or
   truncated UTF-8), proofs in Proofs/RedactWf.v ---- *)

(* an argument printed as unsafe / as safe is well-formed, whatever it contains *)
Theorem C06_unsafe_arg_wf : forall s, wf_red (sprint_pieces [PUnsafe s]) = true.
Proof. exact wf_unsafe. Qed.
Print Assumptions C06_unsafe_arg_wf.

Theorem C06_safe_arg_wf : forall s,
  wf_red (sprint_pieces [PSafe s]) = true /\ has_markers (sprint_pieces [PSafe s]) = false.
Proof. intro s. split; [apply wf_safe | apply safe_no_markers]. Qed.
Print Assumptions C06_safe_arg_wf.

(* any printf call of the model: literals, safe and unsafe arguments with arbitrary
   bytes, and nested redactable strings that are themselves outputs of the printer
   ([raw_ok]: well-formed and not ending, before any trailing marker, in a dangling
   E2 / E2 80): the result is well-formed, and again a valid nested string *)
Theorem C06_printf_wf : forall ps, pieces_ok ps ->
  wf_red (sprint_pieces ps) = true /\ raw_ok (sprint_pieces ps).
Proof. intros ps H. split; [now apply wf_pieces | now apply sprint_raw_ok]. Qed.
Print Assumptions C06_printf_wf.

(* the hypothesis on nested redactable strings is needed -- and the real
   cockroachdb/redact v1.1.5 behaves like the model here (checked: Sprintf("%s%s",
   RedactableString("‹\xe2\x80›"), "\xbaa").Redact() = "‹×›a›"): a finding about the
   dependency, outside this repository; the errors library only nests strings its
   own printer produced (C06_printf_wf closes that loop) or received from a peer *)
Theorem C06_nested_condition_needed :
  let ps := [PRaw (m_start ++ [226; 128] ++ m_end); PUnsafe [186; 97]] in
  Forall (fun p => match p with PRaw r => wf_red r = true | _ => True end) ps
  /\ wf_red (sprint_pieces ps) = false
  /\ redact (sprint_pieces ps) = m_redacted ++ [97] ++ m_end.
Proof. exact wf_pieces_stated_false_2. Qed.
Print Assumptions C06_nested_condition_needed.

(* ---- ASCII arguments: the exact shape ---- *)

Theorem C06_unsafe_arg_wf_partial : forall s,
  s <> [] -> ascii s = true -> no_nl s = true -> wf_red (sprint_pieces [PUnsafe s]) = true.
Proof. exact wf_unsafe_ascii. Qed.
Print Assumptions C06_unsafe_arg_wf_partial.

Theorem C06_strip_congruent_partial : forall s,
  s <> [] -> ascii s = true -> no_nl s = true -> strip_markers (sprint_pieces [PUnsafe s]) = s.
Proof. exact strip_unsafe_ascii. Qed.
Print Assumptions C06_strip_congruent_partial.

Theorem C06_safe_arg_partial : forall s, ascii s = true -> sprint_pieces [PSafe s] = s.
Proof. exact sprint_safe_ascii. Qed.
Print Assumptions C06_safe_arg_partial.

(* ---- the whole formatting engine, every error, arbitrary bytes ---- *)
Theorem C06_engine_short : forall e, sh_ok e ->
  wf_red (fmt_red_short e) = true /\
  Forall (fun l => wf_red l = true) (split_on nl (fmt_red_short e)).
Proof. intros e H. split; [now apply red_short_wf | now apply red_short_lines_wf]. Qed.
Print Assumptions C06_engine_short.

Theorem C06_engine_verbose : forall e, vb_ok e -> glue_top e ->
  wf_red (fmt_red_verbose e) = true /\
  Forall (fun l => wf_red l = true) (split_on nl (fmt_red_verbose e)).
Proof. intros e H G. split; [now apply red_verbose_wf | now apply red_verbose_lines_wf]. Qed.
Print Assumptions C06_engine_verbose.

(* RECORDED FINDING, as theorems about the faithful model (the same inputs fail on the code):
   errors.New("\xe2\x80\n\xb9\na") -- every stored string is an output of the printer, %v is fine,
   %+v has an unbalanced marker *)
Theorem C06_engine_refuted_verbose :
  exists e, fst (build (mkbenv []) (RNew bad_new_msg) bs_init) = Some e /\
            vb_ok e /\ sh_ok e /\
            wf_red (fmt_red_short e) = true /\
            wf_red (fmt_red_verbose e) = false /\
            glue_ns (sem e) = false.
Proof. exact red_verbose_false. Qed.
Print Assumptions C06_engine_refuted_verbose.

(* errors.Newf("%v%s", errors.New("\xe2\n"), redact.Safe("\x80\xb9a")) renders as an opening marker + "a" *)
Theorem C06_engine_refuted_short :
  exists e, fst (build (mkbenv [])
                   (RNewf [FErr VV (RNew [226; nl]); FSafeStr VS [128; 185; 97]]) bs_init) = Some e /\
            fmt_red_short e = m_start ++ [97] /\
            wf_red (fmt_red_short e) = false.
Proof. exact red_short_false_built. Qed.
Print Assumptions C06_engine_refuted_short.

(* ---- from the INPUT of the public API (Proofs/ApiWf.v): errors are not arbitrary values, they are built by
   the constructors (the recipe language of Model/Build.v, network transfers through arbitrary processes
   included) from strings of arbitrary bytes.  The hypotheses are decidable conditions on the constructor
   expression: [in_fragment r] = no error argument printed with %+v inside a message format, [strs_ok r] = in
   every string that becomes part of a MESSAGE a truncated marker prefix (E2 or E2 80) is followed by a byte
   that is neither a newline, ':' nor E2 (hints, details, links, keys, domains, tags, safe details: no condition),
   [stacks_ok env] = no marker rune in the captured frames.  Nothing is assumed about stored strings any more. ---- *)
Theorem C06_api_short : forall env r s e s',
  in_fragment r = true -> strs_ok r = true -> build env r s = (Some e, s') ->
  wf_red (fmt_red_short e) = true /\ Forall (fun l => wf_red l = true) (split_on nl (fmt_red_short e)).
Proof. intros env r s e s' F S E. split; [exact (api_short_rendering_wf env r s e s' F S E)|exact (api_short_lines_wf env r s e s' F S E)]. Qed.
Print Assumptions C06_api_short.

Theorem C06_api_verbose : forall env r s e s',
  in_fragment r = true -> strs_ok r = true -> stacks_ok env -> build env r s = (Some e, s') ->
  wf_red (fmt_red_verbose e) = true /\ Forall (fun l => wf_red l = true) (split_on nl (fmt_red_verbose e)).
Proof. intros env r s e s' F S K E. split; [exact (api_verbose_rendering_wf env r s e s' F S K E)|exact (api_verbose_lines_wf env r s e s' F S K E)]. Qed.
Print Assumptions C06_api_verbose.

(* no condition on the strings at all when error arguments come last in their format (and not with %+v) *)
Theorem C06_api_short_lastarg : forall env r s e s',
  no_transfer r = true -> errargs_last r = true -> build env r s = (Some e, s') ->
  wf_red (fmt_red_short e) = true.
Proof. exact api_short_rendering_wf_lastarg. Qed.
Print Assumptions C06_api_short_lastarg.

(* the string condition is needed (the recorded finding, now as a statement about constructor expressions) *)
Theorem C06_api_condition_needed :
  exists e s',
    no_transfer bad_short_recipe = true /\ no_plusv bad_short_recipe = true /\
    build (mkbenv []) bad_short_recipe bs_init = (Some e, s') /\
    ~ sh_ok e /\ wf_red (fmt_red_short e) = false /\
    strs_ok bad_short_recipe = false.
Proof. exact api_short_wf_false. Qed.
Print Assumptions C06_api_condition_needed.

(* the hypotheses are met by a non-trivial expression: nested Wrapf with a %v error argument that is a barrier
   with a two-line message, hostile unsafe strings, an arbitrary-byte hint, a secondary error, three hops *)
Example C06_api_example :
  in_fragment ex_transfer_recipe = true /\ strs_ok ex_transfer_recipe = true /\ no_transfer ex_transfer_recipe = false.
Proof. exact ex_transfer_recipe_ok. Qed.

(* ... and WITHOUT the restriction on %+v error arguments (Proofs/ApiWfPlus.v): for EVERY constructor expression,
   under the string condition [strs_ok'] = [strs_ok] plus: the strings an error argument printed with %+v shows
   behind p.Detail() (hints, details, links, keys, domains, tags, safe-detail formats) are tidy too -- they become
   part of a MESSAGE there -- and frames whose names are tidy.  [fragment_strs_ok']: the old fragment is contained.
   No witness shows the strengthening necessary (C06_api_strengthening_not_shown_needed). *)
Theorem C06_api_all : forall env r s e s',
  strs_ok' r = true -> stacks_ok' env -> build env r s = (Some e, s') ->
  wf_red (fmt_red_short e) = true /\ wf_red (fmt_red_verbose e) = true /\
  Forall (fun l => wf_red l = true) (split_on nl (fmt_red_verbose e)).
Proof.
  intros env r s e s' S K E.
  split; [exact (api_short_rendering_wf_all env r s e s' S K E)|].
  split; [exact (api_verbose_rendering_wf_all env r s e s' S K E)|exact (api_verbose_lines_wf_all env r s e s' S K E)].
Qed.
Print Assumptions C06_api_all.

Theorem C06_api_all_contains_fragment : forall r, in_fragment r = true -> strs_ok r = true -> strs_ok' r = true.
Proof. exact fragment_strs_ok'. Qed.
Print Assumptions C06_api_all_contains_fragment.

Example C06_api_all_example : strs_ok' ex_plus_recipe = true /\ in_fragment ex_plus_recipe = false.
Proof. exact ex_plus_recipe_ok. Qed.

Example C06_api_strengthening_not_shown_needed :
  strs_ok untidy_recipe = true /\ strs_ok' untidy_recipe = false /\
  stacks_ok untidy_env /\ ~ stacks_ok' untidy_env /\
  exists e s', build untidy_env untidy_recipe bs_init = (Some e, s') /\
    wf_red (fmt_red_short e) = true /\ wf_red (fmt_red_verbose e) = true.
Proof. exact untidy_still_wf. Qed.

(* hostile contents everywhere else are fine: evaluated instance of the two theorems *)
Example C06_engine_example :
  let hidden := Leaf 2%positive (LErrString (m_start ++ [nl] ++ m_start)) in
  let sec := Barrier 3%positive (sprint_pieces [PUnsafe (m_end ++ [226; 128])]) hidden in
  let e := Wrap 5%positive (WPrefix (sprint_pieces [PUnsafe [226; 128; 185; nl; 97]; PLit (lit " x")]))
             (Second 4%positive (Leaf 1%positive (LLeafError (sprint_pieces [PSafe [97; nl; 98; 226]]))) sec) in
  wf_red (fmt_red_verbose e) = true /\ wf_red (fmt_red_short e) = true.
Proof. exact red_verbose_wf_example. Qed.

(* hostile contents: marker bytes and newlines in an unsafe argument, evaluated *)
Example C06_example :
  wf_red (sprint_pieces [PUnsafe (lit "a" ++ m_start ++ [nl] ++ m_end ++ lit "b")]) = true /\
  wf_red (sprint_pieces [PLit (lit "x"); PUnsafe (m_end ++ m_end); PSafe (m_start)]) = true /\
  wf_red (sprint_pieces [PUnsafe ([nl; nl] ++ lit "z" ++ [nl])]) = true.
Proof. vm_compute. repeat split. Qed.
