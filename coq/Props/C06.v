(* C06 -- Redactable renderings are well-formed and congruent with plain ones.
   Statements only; proofs in Proofs/RedactWf.v, Proofs/RedactFacts.v.  Proved on
   the model of cockroachdb/redact: every printf call is well-formed for ARBITRARY
   byte contents of its arguments; for ASCII arguments the exact shape and the
   congruence with the plain text.  The composition of the printed pieces by the
   formatting engine (line splitting, entry layout) is decided on every run by the
   byte-exact correspondence on hostile strings and the marker scanner on the
   implementation (its proof is listed as missing in the evidence). *)
From Errv Require Import Base.Str Redact.Markers Redact.Buffer Proofs.RedactFacts Proofs.RedactWf.

(* ---- for ARBITRARY BYTES (marker bytes, newlines anywhere, NUL, invalid or
   truncated UTF-8), proofs in Proofs/RedactWf.v ---- *)

(* an argument printed as unsafe / as safe is well-formed, whatever it contains *)
Theorem C06_unsafe_arg_wf : forall s, wf_red (sprint_pieces [PUnsafe s]) = true.
Proof. exact wf_unsafe. Qed.
Print Assumptions C06_unsafe_arg_wf.

Theorem C06_safe_arg_wf : forall s,
  wf_red (sprint_pieces [PSafe s]) = true /\ has_markers (sprint_pieces [PSafe s]) = false.
Proof. intro s. split; [apply wf_safe | apply safe_no_markers]. Qed.
Print Assumptions C06_safe_arg_wf.

(* any printf call of the model: literals, safe and unsafe arguments with arbitrary
   bytes, and nested redactable strings that are themselves outputs of the printer
   ([raw_ok]: well-formed and not ending, before any trailing marker, in a dangling
   E2 / E2 80): the result is well-formed, and again a valid nested string *)
Theorem C06_printf_wf : forall ps, pieces_ok ps ->
  wf_red (sprint_pieces ps) = true /\ raw_ok (sprint_pieces ps).
Proof. intros ps H. split; [now apply wf_pieces | now apply sprint_raw_ok]. Qed.
Print Assumptions C06_printf_wf.

(* the hypothesis on nested redactable strings is needed -- and the real
   cockroachdb/redact v1.1.5 behaves like the model here (checked: Sprintf("%s%s",
   RedactableString("‹\xe2\x80›"), "\xbaa").Redact() = "‹×›a›"): a finding about the
   dependency, outside this repository; the errors library only nests strings its
   own printer produced (C06_printf_wf closes that loop) or received from a peer *)
Theorem C06_nested_condition_needed :
  let ps := [PRaw (m_start ++ [226; 128] ++ m_end); PUnsafe [186; 97]] in
  Forall (fun p => match p with PRaw r => wf_red r = true | _ => True end) ps
  /\ wf_red (sprint_pieces ps) = false
  /\ redact (sprint_pieces ps) = m_redacted ++ [97] ++ m_end.
Proof. exact wf_pieces_stated_false_2. Qed.
Print Assumptions C06_nested_condition_needed.

(* ---- ASCII arguments: the exact shape ---- *)

Theorem C06_unsafe_arg_wf_partial : forall s,
  s <> [] -> ascii s = true -> no_nl s = true -> wf_red (sprint_pieces [PUnsafe s]) = true.
Proof. exact wf_unsafe_ascii. Qed.
Print Assumptions C06_unsafe_arg_wf_partial.

Theorem C06_strip_congruent_partial : forall s,
  s <> [] -> ascii s = true -> no_nl s = true -> strip_markers (sprint_pieces [PUnsafe s]) = s.
Proof. exact strip_unsafe_ascii. Qed.
Print Assumptions C06_strip_congruent_partial.

Theorem C06_safe_arg_partial : forall s, ascii s = true -> sprint_pieces [PSafe s] = s.
Proof. exact sprint_safe_ascii. Qed.
Print Assumptions C06_safe_arg_partial.

(* hostile contents: marker bytes and newlines in an unsafe argument, evaluated *)
Example C06_example :
  wf_red (sprint_pieces [PUnsafe (lit "a" ++ m_start ++ [nl] ++ m_end ++ lit "b")]) = true /\
  wf_red (sprint_pieces [PLit (lit "x"); PUnsafe (m_end ++ m_end); PSafe (m_start)]) = true /\
  wf_red (sprint_pieces [PUnsafe ([nl; nl] ++ lit "z" ++ [nl])]) = true.
Proof. vm_compute. repeat split. Qed.
