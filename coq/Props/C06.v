(* C06 -- Redactable renderings are well-formed and congruent with plain ones.
   Statements only; proofs in Proofs/RedactFacts.v.  Proved so far on the redact
   model for ASCII arguments without newline (no marker can start inside them):
   the printed argument is well-formed and stripping its markers gives the
   argument back.  All byte contents and the whole engine are decided on every
   run by the correspondence stream and the marker scanner on the implementation
   (their proof is listed as missing in the evidence). *)
From Errv Require Import Base.Str Redact.Markers Redact.Buffer Proofs.RedactFacts.

Theorem C06_unsafe_arg_wf_partial : forall s,
  s <> [] -> ascii s = true -> no_nl s = true -> wf_red (sprint_pieces [PUnsafe s]) = true.
Proof. exact wf_unsafe_ascii. Qed.
Print Assumptions C06_unsafe_arg_wf_partial.

Theorem C06_strip_congruent_partial : forall s,
  s <> [] -> ascii s = true -> no_nl s = true -> strip_markers (sprint_pieces [PUnsafe s]) = s.
Proof. exact strip_unsafe_ascii. Qed.
Print Assumptions C06_strip_congruent_partial.

Theorem C06_safe_arg_partial : forall s, ascii s = true -> sprint_pieces [PSafe s] = s.
Proof. exact sprint_safe_ascii. Qed.
Print Assumptions C06_safe_arg_partial.

(* hostile contents: marker bytes and newlines in an unsafe argument, evaluated *)
Example C06_example :
  wf_red (sprint_pieces [PUnsafe (lit "a" ++ m_start ++ [nl] ++ m_end ++ lit "b")]) = true /\
  wf_red (sprint_pieces [PLit (lit "x"); PUnsafe (m_end ++ m_end); PSafe (m_start)]) = true /\
  wf_red (sprint_pieces [PUnsafe ([nl; nl] ++ lit "z" ++ [nl])]) = true.
Proof. vm_compute. repeat split. Qed.
