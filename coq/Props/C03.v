(* C03 -- Unsafe strings never reach PII-free outputs.
   Statements only; proofs in Proofs/RedactFacts.v.
   Proved so far, on the model of cockroachdb/redact: Redact() removes everything
   between an opening marker and its closing marker; an unsafe argument is printed
   between markers, hence hidden entirely by Redact().  These are the two facts
   every PII-free output of the library rests on (all of them are produced by
   Redact() of a redactable rendering).  The non-interference theorem through the
   whole formatting engine (the engine's own line splitting and entry layout
   around the printed pieces) is decided on every run by the correspondence
   stream on hostile strings and the token search on the implementation; its
   proof is listed as missing in the evidence.  At the level of one printf call
   the non-interference theorem is proved for ARBITRARY bytes (below).

   UPDATE: the theorem through the WHOLE ENGINE is proved (Proofs/EngineNI.v, 2,300 lines):
   C03_engine_short / C03_engine_verbose -- for any two errors related by [ueq] (same tree, same
   safe material, ARBITRARY different contents in every unsafe position of the model: foreign
   leaf messages, hints, details, unsafe tag values, paths, foreign wrapper messages, opaque
   messages and prefixes, mark messages, hidden errors recursively), what Redact() leaves of
   %v / %s and of %+v is the same.  The relation asks of two unsafe strings the same LINE
   SHAPE; for strings the engine writes itself the shape must also distinguish lines of
   0 / 1 / 2+ bytes: C03_line_length_observable is the witness (Redact() output differs between
   "\na" and "\nbc": the engine glues a one-byte line to the previous one).  That is a
   length side channel of one bit per line, not content; it is stated, not hidden. *)
From Errv Require Import Base.Str Redact.Markers Redact.Buffer Model.Err Model.Sem Model.Report Model.Details Model.Codec Model.Build
     Proofs.RedactFacts Proofs.RedactWf Proofs.EngineWf Proofs.EngineNI Proofs.DetailsNI Proofs.ApiWf Proofs.ApiNI Proofs.ApiNITransfer.

(* ---- non-interference for ARBITRARY BYTES (Proofs/RedactWf.v): what Redact()
   leaves of a printf call does not depend on the content of an unsafe argument,
   only on its line shape (which lines are empty) -- whatever the other pieces
   are (literals, safe / unsafe arguments with any bytes, nested printer outputs) ---- *)
Theorem C03_printf_noninterference : forall pre post s1 s2,
  pieces_ok pre -> pieces_ok post ->
  List.map is_empty (split_on nl s1) = List.map is_empty (split_on nl s2) ->
  redact (sprint_pieces (pre ++ PUnsafe s1 :: post)) = redact (sprint_pieces (pre ++ PUnsafe s2 :: post)).
Proof. exact redact_pieces_ni. Qed.
Print Assumptions C03_printf_noninterference.

Theorem C03_unsafe_arg_noninterference : forall s1 s2,
  List.map is_empty (split_on nl s1) = List.map is_empty (split_on nl s2) ->
  redact (sprint_pieces [PUnsafe s1]) = redact (sprint_pieces [PUnsafe s2]).
Proof. exact redact_unsafe_shape. Qed.
Print Assumptions C03_unsafe_arg_noninterference.

Theorem C03_redact_hides_region : forall bs rest,
  no_e2 bs = true -> redact (m_start ++ bs ++ m_end ++ rest) = m_redacted ++ redact rest.
Proof. exact redact_region. Qed.
Print Assumptions C03_redact_hides_region.

Theorem C03_unsafe_arg_hidden_partial : forall s,
  s <> [] -> ascii s = true -> no_nl s = true ->
  redact (sprint_pieces [PUnsafe s]) = m_redacted.
Proof. exact redact_unsafe_ascii. Qed.
Print Assumptions C03_unsafe_arg_hidden_partial.

(* two different unsafe arguments are indistinguishable after Redact() *)
Theorem C03_noninterference_arg_partial : forall s1 s2,
  s1 <> [] -> ascii s1 = true -> no_nl s1 = true ->
  s2 <> [] -> ascii s2 = true -> no_nl s2 = true ->
  redact (sprint_pieces [PUnsafe s1]) = redact (sprint_pieces [PUnsafe s2]).
Proof. intros. now rewrite !redact_unsafe_ascii. Qed.
Print Assumptions C03_noninterference_arg_partial.

(* ---- the whole formatting engine ---- *)
Theorem C03_engine_short : forall e1 e2, ueq e1 e2 -> sh_ok e1 -> sh_ok e2 ->
  redact (fmt_red_short e1) = redact (fmt_red_short e2).
Proof. exact ni_short. Qed.
Print Assumptions C03_engine_short.

Theorem C03_engine_verbose : forall e1 e2, ueq e1 e2 -> vb_ok e1 -> vb_ok e2 -> glue_top e1 -> glue_top e2 ->
  redact (fmt_red_verbose e1) = redact (fmt_red_verbose e2).
Proof. exact ni_verbose. Qed.
Print Assumptions C03_engine_verbose.

(* for an ordinary foreign leaf the relation only asks for the same line shape of the two messages *)
Theorem C03_leaf_relation : forall k1 k2,
  lsent 1%positive k1 = false -> lsent 1%positive k2 = false ->
  sh3 (leaf_text k1) = sh3 (leaf_text k2) -> frel k1 k2.
Proof. exact frel_plain. Qed.
Print Assumptions C03_leaf_relation.

(* the finer shape is needed: same positions of line breaks, different Redact() output *)
Theorem C03_line_length_observable :
  let e1 := Leaf 1%positive (LErrString [nl; 97]) in
  let e2 := Leaf 1%positive (LErrString [nl; 98; 99]) in
  shape [nl; 97] = shape [nl; 98; 99] /\ sh_ok e1 /\ sh_ok e2 /\
  redact (fmt_red_short e1) = m_redacted /\ redact (fmt_red_short e2) = nl :: m_redacted.
Proof. exact ni_short_false_shape. Qed.
Print Assumptions C03_line_length_observable.

(* ---- the other PII-free outputs (Proofs/DetailsNI.v): safe details, the reportable part of the wire encoding,
   the Sentry report.  [ueq'] = [ueq] plus equality of the strings a layer DECLARES safe without printing them
   (SafeDetails() of the harness user types, the redacted tags a context layer received); [ueq''] = [ueq'] plus
   equality of the two payloads an encoder declares reportable although the formatter prints them as unsafe
   arguments (the HTTP status code, the message of an errno received from another platform): integers / OS
   table texts, recorded below as witnesses, not user strings ---- *)
Theorem C03_safe_details : forall e1 e2, ueq' e1 e2 -> vb_ok e1 -> vb_ok e2 ->
  get_safe_details e1 = get_safe_details e2 /\ get_all_safe_details e1 = get_all_safe_details e2.
Proof. intros e1 e2 U V1 V2. split; [exact (ni_safe_details e1 e2 U V1 V2)|exact (ni_all_safe_details e1 e2 U V1 V2)]. Qed.
Print Assumptions C03_safe_details.

Theorem C03_report : forall e1 e2, ueq' e1 e2 -> vb_ok e1 -> vb_ok e2 -> glue_top e1 -> glue_top e2 ->
  build_report e1 = build_report e2.
Proof. exact ni_report. Qed.
Print Assumptions C03_report.

Theorem C03_wire_reportable : forall e1 e2, ueq'' e1 e2 -> vb_ok e1 -> vb_ok e2 ->
  enc_safe (encode e1) = enc_safe (encode e2).
Proof. exact ni_encode. Qed.
Print Assumptions C03_wire_reportable.

(* the extra equalities of [ueq''] are needed: the HTTP code is printed as an unsafe argument by the formatter
   but declared reportable by the encoder ("HTTP 404") *)
Theorem C03_wire_http_code_witness :
  let e1 := http_e 404 in let e2 := http_e 500 in
  ueq' e1 e2 /\ vb_ok e1 /\ vb_ok e2 /\ glue_top e1 /\ glue_top e2 /\
  redact (fmt_red_verbose e1) = redact (fmt_red_verbose e2) /\
  get_all_safe_details e1 = get_all_safe_details e2 /\
  build_report e1 = build_report e2 /\
  dt_rep (enc_details (encode e1)) = [lit "HTTP 404"] /\
  dt_rep (enc_details (encode e2)) = [lit "HTTP 500"] /\
  enc_safe (encode e1) <> enc_safe (encode e2).
Proof. exact ni_encode_refuted_http. Qed.
Print Assumptions C03_wire_http_code_witness.

Example C03_details_example :
  ueq'' ex_e1 ex_e2.
Proof. exact ex_ueq''. Qed.

(* ---- from the INPUT of the public API (Proofs/ApiNI.v): two constructor expressions related by [req] -- the same
   constructors and verbs in the same places, everything that enters through a safe channel equal (format literals,
   Safe() arguments, messages of New / Wrap / WithMessage, keys, domains, links, codes, errno and sentinel numbers ...),
   every string that enters through an UNSAFE channel (foreign messages, %s / %v arguments, hints, details, paths,
   addresses, unsafe tag values, gRPC messages ...) arbitrary with the same line shape -- build errors with the same
   PII-free outputs.  The domain of [req] is the decidable fragment [ni_frag] (no transfers, no stdlib Join, no
   full-message user wrapper, error arguments last in message formats); each exclusion and each extra clause of [req]
   is witnessed below.  The %v / %s statement needs NO condition on the bytes at all. ---- *)
Theorem C03_api_short : forall env r1 r2 s e1 e2 s1 s2, req r1 r2 ->
  build env r1 s = (Some e1, s1) -> build env r2 s = (Some e2, s2) ->
  redact (fmt_red_short e1) = redact (fmt_red_short e2).
Proof. exact api_ni_short. Qed.
Print Assumptions C03_api_short.

Theorem C03_api_outputs : forall env r1 r2 s e1 e2 s1 s2, req r1 r2 ->
  strs_ok r1 = true -> strs_ok r2 = true -> stacks_ok env ->
  build env r1 s = (Some e1, s1) -> build env r2 s = (Some e2, s2) ->
  redact (fmt_red_verbose e1) = redact (fmt_red_verbose e2) /\
  get_all_safe_details e1 = get_all_safe_details e2 /\
  build_report e1 = build_report e2 /\
  enc_safe (encode e1) = enc_safe (encode e2).
Proof.
  intros env r1 r2 s e1 e2 s1 s2 H T1 T2 K E1 E2.
  split; [exact (api_ni_verbose env r1 r2 s e1 e2 s1 s2 H T1 T2 K E1 E2)|].
  split; [exact (api_ni_details env r1 r2 s e1 e2 s1 s2 H T1 T2 K E1 E2)|].
  split; [exact (api_ni_report env r1 r2 s e1 e2 s1 s2 H T1 T2 K E1 E2)|exact (api_ni_encode env r1 r2 s e1 e2 s1 s2 H T1 T2 K E1 E2)].
Qed.
Print Assumptions C03_api_outputs.

(* related expressions are nil together, and the relation is reflexive exactly on the fragment *)
Theorem C03_api_relation : forall r, ni_frag r = true -> req r r.
Proof. exact req_refl. Qed.
Print Assumptions C03_api_relation.

Theorem C03_api_fragment : forall r1 r2, req r1 r2 -> ni_frag r1 = true /\ ni_frag r2 = true.
Proof. exact req_frag. Qed.
Print Assumptions C03_api_fragment.

(* two concrete related expressions (Wrapf with an unsafe %s, a %d and an error argument, over a barrier with
   domain, tags, hint and a secondary error) meet every hypothesis; their unredacted renderings differ *)
Example C03_api_example :
  req ni_r1 ni_r2 /\ strs_ok ni_r1 = true /\ strs_ok ni_r2 = true /\ stacks_ok ex_env.
Proof. split; [exact ni_ex_req|exact ni_ex_hyps]. Qed.

(* ---- across network transfers (Proofs/ApiNITransfer.v).  At a process that does not know a type the node becomes an
   opaque stand-in that keeps the FULL wire payload, so [ueq] (payloads of opaque nodes equal) is too strong after a
   hop.  [ueqT] relates the payloads of opaque nodes only in what the engine reads (type names, reportable strings,
   payload type); [encT] is the relation on wire messages (per type family: which decoder reads which string).
   The engine theorems hold for [ueqT]; decoding through ANY process maps related messages to related errors. ---- *)
Theorem C03_transfer_engine : forall e1 e2, ueqT e1 e2 ->
  (sh_ok e1 -> sh_ok e2 -> redact (fmt_red_short e1) = redact (fmt_red_short e2)) /\
  (vb_ok e1 -> vb_ok e2 -> glue_top e1 -> glue_top e2 -> redact (fmt_red_verbose e1) = redact (fmt_red_verbose e2)).
Proof. intros e1 e2 U. split; [exact (ni_short_T e1 e2 U)|exact (ni_verbose_T e1 e2 U)]. Qed.
Print Assumptions C03_transfer_engine.

Theorem C03_transfer_decode : forall p x1 x2, encT x1 x2 ->
  forall n1 n2, ueqT (fst (decode p x1 n1)) (fst (decode p x2 n2)).
Proof. exact decode_T. Qed.
Print Assumptions C03_transfer_decode.

Theorem C03_transfer_weakens_ueq : forall e1 e2, ueq e1 e2 -> ueqT e1 e2.
Proof. intros e1 e2. exact (ueq_ueqT e1 e2). Qed.
Print Assumptions C03_transfer_weakens_ueq.

(* the per-family relation on wire messages is needed: NO relation that contains [ueq] is both preserved by every
   hop and sufficient for equal redacted renderings (the witness is the one-byte-line channel of
   C03_line_length_observable carried in the message of an opaque errorString node) *)
Theorem C03_transfer_no_uniform_relation :
  ~ exists R : err -> err -> Prop,
      (forall e1 e2, ueq e1 e2 -> R e1 e2) /\
      (forall p e1 e2 n, R e1 e2 -> R (fst (hop p e1 n)) (fst (hop p e2 n))) /\
      (forall e1 e2, R e1 e2 -> sh_ok e1 -> sh_ok e2 -> redact (fmt_red_short e1) = redact (fmt_red_short e2)).
Proof. exact no_hop_closed_relation_above_ueq. Qed.
Print Assumptions C03_transfer_no_uniform_relation.

(* an evaluated instance: hint, prefix, secondary error, opaque leaf with different unsafe contents *)
Example C03_engine_example :
  redact (fmt_red_short ex_e1) = redact (fmt_red_short ex_e2) /\
  redact (fmt_red_verbose ex_e1) = redact (fmt_red_verbose ex_e2).
Proof. exact ni_example. Qed.

Example C03_example :
  redact (sprint_pieces [PLit (lit "user "); PUnsafe (lit "alice"); PLit (lit " denied")])
  = lit "user " ++ m_redacted ++ lit " denied" /\
  (* hostile content: a closing marker inside the argument cannot end the region early *)
  redact (sprint_pieces [PUnsafe (m_end ++ lit "secret")]) = m_redacted.
Proof. vm_compute. split; reflexivity. Qed.
