(* C03 -- Unsafe strings never reach PII-free outputs.
   Statements only; proofs in Proofs/RedactFacts.v.
   Proved so far, on the model of cockroachdb/redact: Redact() removes everything
   between an opening marker and its closing marker; an unsafe argument is printed
   between markers, hence hidden entirely by Redact().  These are the two facts
   every PII-free output of the library rests on (all of them are produced by
   Redact() of a redactable rendering).  The non-interference theorem through the
   whole formatting engine, and arbitrary byte contents (marker bytes, invalid
   UTF-8, newlines inside arguments), are decided on every run by the
   correspondence stream on hostile strings and the token search on the
   implementation; their proof is listed as missing in the evidence. *)
From Errv Require Import Base.Str Redact.Markers Redact.Buffer Proofs.RedactFacts.

Theorem C03_redact_hides_region : forall bs rest,
  no_e2 bs = true -> redact (m_start ++ bs ++ m_end ++ rest) = m_redacted ++ redact rest.
Proof. exact redact_region. Qed.
Print Assumptions C03_redact_hides_region.

Theorem C03_unsafe_arg_hidden_partial : forall s,
  s <> [] -> ascii s = true -> no_nl s = true ->
  redact (sprint_pieces [PUnsafe s]) = m_redacted.
Proof. exact redact_unsafe_ascii. Qed.
Print Assumptions C03_unsafe_arg_hidden_partial.

(* two different unsafe arguments are indistinguishable after Redact() *)
Theorem C03_noninterference_arg_partial : forall s1 s2,
  s1 <> [] -> ascii s1 = true -> no_nl s1 = true ->
  s2 <> [] -> ascii s2 = true -> no_nl s2 = true ->
  redact (sprint_pieces [PUnsafe s1]) = redact (sprint_pieces [PUnsafe s2]).
Proof. intros. now rewrite !redact_unsafe_ascii. Qed.
Print Assumptions C03_noninterference_arg_partial.

Example C03_example :
  redact (sprint_pieces [PLit (lit "user "); PUnsafe (lit "alice"); PLit (lit " denied")])
  = lit "user " ++ m_redacted ++ lit " denied" /\
  (* hostile content: a closing marker inside the argument cannot end the region early *)
  redact (sprint_pieces [PUnsafe (m_end ++ lit "secret")]) = m_redacted.
Proof. vm_compute. split; reflexivity. Qed.
