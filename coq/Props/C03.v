(* C03 -- Unsafe strings never reach PII-free outputs.
   Statements only; proofs in Proofs/RedactFacts.v.
   Proved so far, on the model of cockroachdb/redact: Redact() removes everything
   between an opening marker and its closing marker; an unsafe argument is printed
   between markers, hence hidden entirely by Redact().  These are the two facts
   every PII-free output of the library rests on (all of them are produced by
   Redact() of a redactable rendering).  The non-interference theorem through the
   whole formatting engine (the engine's own line splitting and entry layout
   around the printed pieces) is decided on every run by the correspondence
   stream on hostile strings and the token search on the implementation; its
   proof is listed as missing in the evidence.  At the level of one printf call
   the non-interference theorem is proved for ARBITRARY bytes (below). *)
From Errv Require Import Base.Str Redact.Markers Redact.Buffer Proofs.RedactFacts Proofs.RedactWf.

(* ---- non-interference for ARBITRARY BYTES (Proofs/RedactWf.v): what Redact()
   leaves of a printf call does not depend on the content of an unsafe argument,
   only on its line shape (which lines are empty) -- whatever the other pieces
   are (literals, safe / unsafe arguments with any bytes, nested printer outputs) ---- *)
Theorem C03_printf_noninterference : forall pre post s1 s2,
  pieces_ok pre -> pieces_ok post ->
  List.map is_empty (split_on nl s1) = List.map is_empty (split_on nl s2) ->
  redact (sprint_pieces (pre ++ PUnsafe s1 :: post)) = redact (sprint_pieces (pre ++ PUnsafe s2 :: post)).
Proof. exact redact_pieces_ni. Qed.
Print Assumptions C03_printf_noninterference.

Theorem C03_unsafe_arg_noninterference : forall s1 s2,
  List.map is_empty (split_on nl s1) = List.map is_empty (split_on nl s2) ->
  redact (sprint_pieces [PUnsafe s1]) = redact (sprint_pieces [PUnsafe s2]).
Proof. exact redact_unsafe_shape. Qed.
Print Assumptions C03_unsafe_arg_noninterference.

Theorem C03_redact_hides_region : forall bs rest,
  no_e2 bs = true -> redact (m_start ++ bs ++ m_end ++ rest) = m_redacted ++ redact rest.
Proof. exact redact_region. Qed.
Print Assumptions C03_redact_hides_region.

Theorem C03_unsafe_arg_hidden_partial : forall s,
  s <> [] -> ascii s = true -> no_nl s = true ->
  redact (sprint_pieces [PUnsafe s]) = m_redacted.
Proof. exact redact_unsafe_ascii. Qed.
Print Assumptions C03_unsafe_arg_hidden_partial.

(* two different unsafe arguments are indistinguishable after Redact() *)
Theorem C03_noninterference_arg_partial : forall s1 s2,
  s1 <> [] -> ascii s1 = true -> no_nl s1 = true ->
  s2 <> [] -> ascii s2 = true -> no_nl s2 = true ->
  redact (sprint_pieces [PUnsafe s1]) = redact (sprint_pieces [PUnsafe s2]).
Proof. intros. now rewrite !redact_unsafe_ascii. Qed.
Print Assumptions C03_noninterference_arg_partial.

Example C03_example :
  redact (sprint_pieces [PLit (lit "user "); PUnsafe (lit "alice"); PLit (lit " denied")])
  = lit "user " ++ m_redacted ++ lit " denied" /\
  (* hostile content: a closing marker inside the argument cannot end the region early *)
  redact (sprint_pieces [PUnsafe (m_end ++ lit "secret")]) = m_redacted.
Proof. vm_compute. split; reflexivity. Qed.
