(* C07 -- Barriers, secondary errors and Mark references hide their payload from
   cause analysis.  Statements only; proofs in Proofs/HiddenFacts.v. *)
From Errv Require Import Base.Str Redact.Markers Model.Err Model.Sem Model.Details Model.Marks
     Model.Access Model.Report Model.Codec Proofs.FastIs Proofs.MarksFacts Proofs.HiddenFacts.

(* nothing hidden is reachable through Unwrap / Cause / UnwrapAll *)
Theorem C07_not_reachable : forall i m h c s,
  visit_all (Barrier i m h) = [Barrier i m h] /\
  unwrap_once (Barrier i m h) = None /\ unwrap_all (Barrier i m h) = Barrier i m h /\
  visit_all (Second i c s) = Second i c s :: visit_all c.
Proof. intros. repeat split. Qed.
Print Assumptions C07_not_reachable.

(* Is / IsAny: the answer does not depend on the hidden payload, whether the
   barrier / secondary layer is in the error or in the reference *)
Theorem C07_is_ni : forall i m h1 h2 c s1 s2 r e,
  is_ (Barrier i m h1) r = is_ (Barrier i m h2) r /\
  is_ e (Barrier i m h1) = is_ e (Barrier i m h2) /\
  is_ (Second i c s1) r = is_ (Second i c s2) r.
Proof. intros. split; [apply barrier_is | split; [apply barrier_ref | apply secondary_is]]. Qed.
Print Assumptions C07_is_ni.

Theorem C07_accessors_barrier : forall i m h,
  get_all_hints (Barrier i m h) = [] /\ get_all_details (Barrier i m h) = [] /\
  get_all_issue_links (Barrier i m h) = [] /\ get_telemetry_keys (Barrier i m h) = [] /\
  get_domain (Barrier i m h) = no_domain /\ get_context_tags (Barrier i m h) = [] /\
  has_assertion_failure (Barrier i m h) = false /\ has_issue_link (Barrier i m h) = false /\
  has_unimplemented (Barrier i m h) = false /\
  (forall d, get_http_code (Barrier i m h) d = d) /\ get_grpc_code (Barrier i m h) = 2%N.
Proof. exact barrier_accessors. Qed.
Print Assumptions C07_accessors_barrier.

Theorem C07_accessors_secondary : forall i c s,
  get_all_hints (Second i c s) = get_all_hints c /\ get_all_details (Second i c s) = get_all_details c /\
  get_all_issue_links (Second i c s) = get_all_issue_links c /\
  get_telemetry_keys (Second i c s) = get_telemetry_keys c /\
  get_domain (Second i c s) = get_domain c /\ get_context_tags (Second i c s) = get_context_tags c /\
  has_assertion_failure (Second i c s) = has_assertion_failure c /\
  has_issue_link (Second i c s) = has_issue_link c /\
  has_unimplemented (Second i c s) = has_unimplemented c /\
  (forall d, get_http_code (Second i c s) d = get_http_code c d) /\
  get_grpc_code (Second i c s) = get_grpc_code c.
Proof. exact secondary_accessors. Qed.
Print Assumptions C07_accessors_secondary.

(* Mark: the layer holds the mark of the reference and nothing else of it *)
Theorem C07_mark : forall i e r1 r2, get_mark r1 = get_mark r2 -> mark_ i e r1 = mark_ i e r2.
Proof. exact mark_only_mark. Qed.
Print Assumptions C07_mark.

Theorem C07_mark_accessors : forall i m c,
  get_all_hints (Wrap i (WMark m) c) = get_all_hints c /\
  get_all_details (Wrap i (WMark m) c) = get_all_details c /\
  get_all_issue_links (Wrap i (WMark m) c) = get_all_issue_links c /\
  get_telemetry_keys (Wrap i (WMark m) c) = get_telemetry_keys c /\
  get_domain (Wrap i (WMark m) c) = get_domain c /\
  get_context_tags (Wrap i (WMark m) c) = get_context_tags c /\
  has_assertion_failure (Wrap i (WMark m) c) = has_assertion_failure c /\
  has_issue_link (Wrap i (WMark m) c) = has_issue_link c /\
  has_unimplemented (Wrap i (WMark m) c) = has_unimplemented c /\
  unwrap_all (Wrap i (WMark m) c) = unwrap_all c /\
  error_text (Wrap i (WMark m) c) = error_text c.
Proof. exact mark_accessors. Qed.
Print Assumptions C07_mark_accessors.

(* Handled keeps the text (its message is the rendering of the hidden error at
   construction time), the WithMessage variants replace it *)
Theorem C07_message : forall i smsg h, error_text (Barrier i smsg h) = strip_markers smsg.
Proof. exact barrier_message. Qed.
Print Assumptions C07_message.

(* after transfer: the hidden payload travels inside the layer's own payload and
   is decoded into the hidden position again *)
Theorem C07_transfer_barrier : forall i m h n,
  exists j h' n', decode all_knowing (encode (Barrier i m h)) n = (Barrier j m h', n') /\
                  (h', snd (decode all_knowing (encode h) n)) = decode all_knowing (encode h) n.
Proof.
  intros. cbn [encode]. unfold mk_details. cbn [type_details].
  cbn [decode]. change (mem_str (tm_family (own_tmark (Barrier i m h))) leaf_decoder_keys) with true.
  cbn. destruct (decode all_knowing (encode h) n) as [h' n1] eqn:E.
  exists n1, h', (Pos.succ n1). split; reflexivity.
Qed.
Print Assumptions C07_transfer_barrier.

Example C07_example :
  let hidden := Wrap 101%positive (WHint (lit "secret hint")) (Leaf oid_canceled (LErrString (lit "context canceled"))) in
  let b := Barrier 102%positive (lit "context canceled") hidden in
  let e := Wrap 103%positive (WDetail (lit "d")) b in
  get_all_hints e = [] /\ is_ e hidden = false /\
  is_ e (Leaf oid_canceled (LErrString (lit "context canceled"))) = false /\
  error_text e = lit "context canceled".
Proof. vm_compute. repeat split. Qed.
