(* C07 -- Barriers, secondary errors and Mark references hide their payload from
   cause analysis.  Statements only; proofs in Proofs/HiddenFacts.v, HiddenNI.v.

   [hid_eq e1 e2]: e1 and e2 are the same error except for what sits behind
   barriers (any hidden errors, same barrier message) and in the secondary
   position of secondary-error layers (any secondaries) -- at any depth, below any
   wrappers, inside multi-cause branches.  The theorems say that NO cause-analysis
   function can tell them apart (non-interference), for every context. *)
From Errv Require Import Base.Str Redact.Markers Model.Err Model.Sem Model.Details Model.Marks
     Model.Access Model.Report Model.Std Model.Codec Proofs.FastIs Proofs.MarksFacts Proofs.HiddenFacts Proofs.HiddenNI
     Proofs.HiddenVisible.

(* nothing hidden is reachable through Unwrap / Cause / UnwrapAll *)
Theorem C07_not_reachable : forall i m h c s,
  visit_all (Barrier i m h) = [Barrier i m h] /\
  unwrap_once (Barrier i m h) = None /\ unwrap_all (Barrier i m h) = Barrier i m h /\
  visit_all (Second i c s) = Second i c s :: visit_all c.
Proof. intros. repeat split. Qed.
Print Assumptions C07_not_reachable.

Theorem C07_traversal : forall e1 e2, hid_eq e1 e2 ->
  Forall2 hid_eq (visit_all e1) (visit_all e2) /\
  List.map go_full_name (visit_all e1) = List.map go_full_name (visit_all e2) /\
  hid_eq (unwrap_all e1) (unwrap_all e2) /\ Forall2 hid_eq (chain e1) (chain e2).
Proof.
  intros e1 e2 H. split; [now apply hid_eq_visit_all|]. split; [now apply hid_eq_visit_types|].
  split; [now apply hid_eq_unwrap_all | now apply hid_eq_chain].
Qed.
Print Assumptions C07_traversal.

(* Is / IsAny, with the hidden payload in the error or in the reference *)
Theorem C07_is : forall e1 e2, hid_eq e1 e2 ->
  (forall r, is_ e1 r = is_ e2 r) /\ (forall x, is_ x e1 = is_ x e2) /\
  (forall rs, is_any e1 rs = is_any e2 rs) /\ (forall r, std_is e1 r = std_is e2 r).
Proof.
  intros e1 e2 H. repeat split; intros.
  - now apply hid_eq_is. - now apply hid_eq_is_ref. - now apply hid_eq_is_any. - now apply hid_eq_std_is.
Qed.
Print Assumptions C07_is.

(* As / HasType / If *)
Theorem C07_as : forall e1 e2 t, hid_eq e1 e2 ->
  match as_ e1 t, as_ e2 t with Some a, Some b => hid_eq a b | None, None => True | _, _ => False end.
Proof. intros. now apply hid_eq_as. Qed.
Print Assumptions C07_as.

Theorem C07_has_type : forall e1 e2 r, hid_eq e1 e2 -> has_type e1 r = has_type e2 r.
Proof. intros. now apply hid_eq_has_type. Qed.
Print Assumptions C07_has_type.

(* every Has* / Get* accessor *)
Theorem C07_accessors : forall e1 e2, hid_eq e1 e2 ->
  get_all_hints e1 = get_all_hints e2 /\ get_all_details e1 = get_all_details e2 /\
  get_all_issue_links e1 = get_all_issue_links e2 /\ get_telemetry_keys e1 = get_telemetry_keys e2 /\
  get_domain e1 = get_domain e2 /\ get_context_tags e1 = get_context_tags e2 /\
  has_assertion_failure e1 = has_assertion_failure e2 /\ is_assertion_failure e1 = is_assertion_failure e2 /\
  has_issue_link e1 = has_issue_link e2 /\ has_unimplemented e1 = has_unimplemented e2 /\
  (forall d, get_http_code e1 d = get_http_code e2 d) /\ get_grpc_code e1 = get_grpc_code e2 /\
  is_permission e1 = is_permission e2 /\ is_exist e1 = is_exist e2 /\ is_notexist e1 = is_notexist e2 /\
  is_timeout e1 = is_timeout e2.
Proof.
  intros e1 e2 H.
  split; [now apply hid_eq_hints|]. split; [now apply hid_eq_details|]. split; [now apply hid_eq_issue_links|].
  split; [now apply hid_eq_telemetry_keys|]. split; [now apply hid_eq_domain|]. split; [now apply hid_eq_context_tags|].
  split; [now apply hid_eq_has_assertion_failure|]. split; [now apply hid_eq_is_assertion_failure|].
  split; [now apply hid_eq_has_issue_link|]. split; [now apply hid_eq_has_unimplemented|].
  split; [intro; now apply hid_eq_http_code|]. split; [now apply hid_eq_grpc_code|].
  split; [now apply hid_eq_is_permission|]. split; [now apply hid_eq_is_exist|].
  split; [now apply hid_eq_is_notexist | now apply hid_eq_is_timeout].
Qed.
Print Assumptions C07_accessors.

(* the message: Error() and %v do not depend on what is hidden (Handled keeps the
   text it was built with, the WithMessage variants carry their own) *)
Theorem C07_text : forall e1 e2, hid_eq e1 e2 ->
  error_text e1 = error_text e2 /\ fmt_plain_short e1 = fmt_plain_short e2 /\ get_mark e1 = get_mark e2.
Proof.
  intros e1 e2 H. split; [now apply hid_eq_text|]. split; [now apply hid_eq_fmt_plain_short | now apply hid_eq_get_mark].
Qed.
Print Assumptions C07_text.

Theorem C07_message : forall i smsg h, error_text (Barrier i smsg h) = strip_markers smsg.
Proof. exact barrier_message. Qed.
Print Assumptions C07_message.

(* Mark: the layer holds the mark of the reference and nothing else of it *)
Theorem C07_mark : forall i e r1 r2, get_mark r1 = get_mark r2 -> mark_ i e r1 = mark_ i e r2.
Proof. exact mark_only_mark. Qed.
Print Assumptions C07_mark.

Theorem C07_mark_hidden_in_reference : forall i e r1 r2, hid_eq r1 r2 -> mark_ i e r1 = mark_ i e r2.
Proof. exact hid_eq_mark_ref. Qed.
Print Assumptions C07_mark_hidden_in_reference.

Theorem C07_mark_accessors : forall i m c,
  get_all_hints (Wrap i (WMark m) c) = get_all_hints c /\
  get_all_details (Wrap i (WMark m) c) = get_all_details c /\
  get_all_issue_links (Wrap i (WMark m) c) = get_all_issue_links c /\
  get_telemetry_keys (Wrap i (WMark m) c) = get_telemetry_keys c /\
  get_domain (Wrap i (WMark m) c) = get_domain c /\
  get_context_tags (Wrap i (WMark m) c) = get_context_tags c /\
  has_assertion_failure (Wrap i (WMark m) c) = has_assertion_failure c /\
  has_issue_link (Wrap i (WMark m) c) = has_issue_link c /\
  has_unimplemented (Wrap i (WMark m) c) = has_unimplemented c /\
  unwrap_all (Wrap i (WMark m) c) = unwrap_all c /\
  error_text (Wrap i (WMark m) c) = error_text c.
Proof. exact mark_accessors. Qed.
Print Assumptions C07_mark_accessors.

(* after transfer: the hidden payload travels inside the layer's own payload and
   is decoded into the hidden position again *)
Theorem C07_transfer_barrier : forall i m h n,
  exists j h' n', decode all_knowing (encode (Barrier i m h)) n = (Barrier j m h', n') /\
                  (h', snd (decode all_knowing (encode h) n)) = decode all_knowing (encode h) n.
Proof.
  intros. cbn [encode]. unfold mk_details. cbn [type_details].
  cbn [decode]. change (mem_str (tm_family (own_tmark (Barrier i m h))) leaf_decoder_keys) with true.
  cbn. destruct (decode all_knowing (encode h) n) as [h' n1] eqn:E.
  exists n1, h', (Pos.succ n1). split; reflexivity.
Qed.
Print Assumptions C07_transfer_barrier.

(* ... while remaining visible in the verbose rendering and contributing to the safe details
   (Proofs/HiddenVisible.v).  [indent_detail] is what the engine does to nested detail text:
   continuation lines get the margin "  | "; the un-indented text is NOT a substring
   (witness unindented_infix_refuted there). *)
Theorem C07_barrier_visible_in_verbose : forall i smsg m,
  infix_of (barrier_line ++ indent_detail (fmt_red_verbose m)) (fmt_red_verbose (Barrier i smsg m)).
Proof. exact barrier_verbose_shows_hidden_line. Qed.
Print Assumptions C07_barrier_visible_in_verbose.

Theorem C07_secondary_visible_in_verbose : forall i c s,
  infix_of (secondary_line ++ indent_detail (fmt_red_verbose s)) (fmt_red_verbose (Second i c s)).
Proof. exact secondary_verbose_shows_hidden_line. Qed.
Print Assumptions C07_secondary_visible_in_verbose.

Theorem C07_hidden_safe_details : forall i smsg m c s,
  sd_details (get_safe_details (Barrier i smsg m)) =
    filled_details m ++ [lit "masked error: " ++ redact_strip (fmt_red_verbose m)] /\
  sd_details (get_safe_details (Second i c s)) = filled_details s.
Proof. intros. split; [apply barrier_get_safe_details | apply secondary_get_safe_details]. Qed.
Print Assumptions C07_hidden_safe_details.

Theorem C07_hidden_details_contribute : forall h p d,
  In p (get_all_safe_details h) -> In d (sd_details p) -> In (lit "  " ++ d) (filled_details h).
Proof. exact hidden_details_contribute. Qed.
Print Assumptions C07_hidden_details_contribute.

Example C07_example :
  let hidden1 := Wrap 101%positive (WHint (lit "secret hint")) (Leaf oid_canceled (LErrString (lit "context canceled"))) in
  let hidden2 := Leaf 200%positive (LErrno 13%Z) in
  let ctx := fun h => Wrap 103%positive (WDetail (lit "d")) (Multi 104%positive MStdJoin
                [Barrier 102%positive (lit "context canceled") h; Leaf 105%positive (LErrString (lit "x"))]) in
  hid_eq (ctx hidden1) (ctx hidden2) /\
  get_all_hints (ctx hidden1) = [] /\ is_ (ctx hidden1) hidden1 = false /\
  is_ (ctx hidden1) (Leaf oid_canceled (LErrString (lit "context canceled"))) = false /\
  is_permission (ctx hidden2) = false.
Proof.
  split.
  - apply HWrap. apply HMulti. constructor; [apply HBarrier|]. constructor; [apply hid_eq_refl|constructor].
  - vm_compute. repeat split.
Qed.
