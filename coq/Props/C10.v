(* C10 -- Error() composes predictably; annotations are transparent; nil stays nil.
   Statements only; proofs in Proofs/BuildFacts.v, ShortText.v, SpecText.v.
   C10_compositional (SpecText.build_text) is the property at the level of the public
   API: [spec_text] computes the documented text from the recipe alone ("prefix: cause",
   fmt-formatted messages including nil arguments and %!(EXTRA ...), join = lines, nil
   propagation) and every constructor expression built by the modelled library has
   exactly that Error() text, or is nil exactly when the documentation says so. *)
From Errv Require Import Base.Str Redact.Markers Model.Err Model.Sem Model.Marks Model.Build
     Proofs.BuildFacts Proofs.ShortText Proofs.SpecText.

(* annotation-only wrappers (stack, hint, detail, safe details, telemetry, domain,
   issue link, tags, assertion marker, Mark, HTTP / gRPC code) and secondary errors
   leave Error(), the root cause and every Is / As match unchanged *)
Theorem C10_annotation_text : forall i w c, annotation w = true -> error_text (Wrap i w c) = error_text c.
Proof. exact annotation_text. Qed.
Print Assumptions C10_annotation_text.

Theorem C10_secondary_text : forall i c s, error_text (Second i c s) = error_text c.
Proof. exact secondary_text. Qed.
Print Assumptions C10_secondary_text.

Theorem C10_root : forall i w c s,
  unwrap_all (Wrap i w c) = unwrap_all c /\ unwrap_all (Second i c s) = unwrap_all c.
Proof. intros. split; reflexivity. Qed.
Print Assumptions C10_root.

Theorem C10_is_kept : forall i w c r, is_ c r = true -> is_ (Wrap i w c) r = true.
Proof. exact annotation_is. Qed.
Print Assumptions C10_is_kept.

Theorem C10_as_kept : forall i w c t n,
  annotation w = true ->
  as_ c t = Some n -> assignable (Wrap i w c) t = false -> as_ (Wrap i w c) t = Some n.
Proof. exact annotation_as. Qed.
Print Assumptions C10_as_kept.

(* message wrappers: 'prefix: cause', the cause alone when the prefix is empty.
   The cause is printed with fmt's %v; C09_v_s states that this is its Error()
   text -- until that theorem is proved for every tree this one is the partial
   form (see DESIGN.md) *)
Theorem C10_prefix_partial : forall i rp c,
  error_text (Wrap i (WPrefix rp) c) =
  match rp with [] => error_text c | _ => strip_markers rp ++ lit ": " ++ cause_v c end.
Proof. exact prefix_text. Qed.
Print Assumptions C10_prefix_partial.

(* with C09_v_s: for plain causes the layer yields exactly 'prefix: cause-text' *)
Theorem C10_prefix : forall i rp c,
  plain_tree c = true ->
  error_text (Wrap i (WPrefix rp) c) =
  match rp with [] => error_text c | _ => strip_markers rp ++ lit ": " ++ error_text c end.
Proof.
  intros i rp c H. rewrite prefix_text. destruct rp; [reflexivity|].
  unfold cause_v. destruct (lib_format c); [|reflexivity].
  now rewrite (fmt_plain_short_is_error_text c H).
Qed.
Print Assumptions C10_prefix.

Theorem C10_newmsg : forall i rm c, error_text (Wrap i (WNewMsg rm) c) = strip_markers rm.
Proof. exact newmsg_text. Qed.
Print Assumptions C10_newmsg.

Theorem C10_handled : forall i smsg m, error_text (Barrier i smsg m) = strip_markers smsg.
Proof. exact barrier_text. Qed.
Print Assumptions C10_handled.

(* nil stays nil: every wrapper constructor *)
Theorem C10_nil : forall env r, builds_nil env r ->
  (forall m, builds_nil env (RWrap r m)) /\ (forall f, builds_nil env (RWrapf r f)) /\
  (forall m, builds_nil env (RWithMessage r m)) /\ (forall f, builds_nil env (RWithMessagef r f)) /\
  builds_nil env (RWithStack r) /\ (forall h, builds_nil env (RHint r h)) /\
  (forall h, builds_nil env (RDetail r h)) /\ (forall u d, builds_nil env (RIssueLink r u d)) /\
  (forall k, builds_nil env (RTelemetry r k)) /\ (forall d, builds_nil env (RDomain r d)) /\
  (forall t, builds_nil env (RTags r t)) /\ builds_nil env (RAssert r) /\
  (forall x, builds_nil env (RMark r x)) /\ (forall f, builds_nil env (RSafeDetails r f)) /\
  (forall c, builds_nil env (RHTTP r c)) /\ (forall c, builds_nil env (RGrpc r c)) /\
  (forall x, builds_nil env (RSecondary r x)) /\ builds_nil env (RHandled r) /\
  (forall m, builds_nil env (RHandledMsg r m)) /\ (forall f, builds_nil env (RHandledMsgf r f)) /\
  (forall d, builds_nil env (RHandledInDomain r d)) /\ (forall d m, builds_nil env (RHandledInDomainMsg r d m)) /\
  builds_nil env (RHandleAssert r) /\ (forall f, builds_nil env (RNewAssertWrapped r f)) /\
  (forall m, builds_nil env (RPkgMsg r m)) /\ builds_nil env (RPkgStack r) /\
  (forall ps, builds_nil env (RTransfer r ps)).
Proof.
  intros env r H. repeat split; intros.
  - now apply wrap_nil. - now apply wrapf_nil. - now apply withmessage_nil. - now apply withmessagef_nil.
  - now apply withstack_nil. - now apply hint_nil. - now apply detail_nil. - now apply issuelink_nil.
  - now apply telemetry_nil. - now apply domain_nil. - now apply tags_nil. - now apply assert_nil.
  - now apply mark_nil. - now apply safedetails_nil. - now apply http_nil. - now apply grpc_nil.
  - now apply secondary_nil_left. - now apply handled_nil. - now apply handledmsg_nil.
  - now apply handledmsgf_nil. - now apply handledindomain_nil. - now apply handledindomainmsg_nil.
  - now apply handleassert_nil. - now apply newassertwrapped_nil. - now apply pkgmsg_nil.
  - now apply pkgstack_nil. - now apply transfer_nil.
Qed.
Print Assumptions C10_nil.

Theorem C10_combine_secondary_nil : forall env r x s,
  ((forall s', fst (build env x s') = None) -> fst (build env (RSecondary r x) s) = fst (build env r s)) /\
  ((forall s', fst (build env r s') = None) ->
     fst (build env (RCombine r x) s) = fst (build env x (snd (build env r s)))) /\
  ((forall s', fst (build env x s') = None) -> fst (build env (RCombine r x) s) = fst (build env r s)).
Proof.
  intros. repeat split; intros.
  - now apply secondary_nil_right. - now apply combine_nil_left. - now apply combine_nil_right.
Qed.
Print Assumptions C10_combine_secondary_nil.

Theorem C10_leaf_nonnil : forall env s,
  (forall m, fst (build env (RNew m) s) <> None) /\ (forall m, fst (build env (RStdNew m) s) <> None) /\
  (forall u d m, fst (build env (RUnimpl u d m) s) <> None).
Proof. intros. repeat split; intros; [apply new_nonnil|apply stdnew_nonnil|apply unimpl_nonnil]. Qed.
Print Assumptions C10_leaf_nonnil.

(* every constructor expression (recipe) with plain strings: the Error() text is the
   compositional specification, nil exactly when the specification says nil *)
Theorem C10_compositional : forall env r s,
  ok_recipe r = true ->
  match fst (build env r s) with
  | Some e => spec_text r = Some (error_text e) /\ plain_tree e = true
  | None => spec_text r = None
  end.
Proof. exact build_text. Qed.
Print Assumptions C10_compositional.

(* ... and %v / %s of that error print the same text (with C09) *)
Theorem C10_compositional_v : forall env r s e,
  ok_recipe r = true -> fst (build env r s) = Some e ->
  fmt_plain_short e = error_text e /\ spec_text r = Some (error_text e).
Proof. exact build_text_short. Qed.
Print Assumptions C10_compositional_v.

Example C10_spec_example :
  ok_recipe ex_recipe = true /\
  spec_text ex_recipe =
  Some (lit "ctx 42 w: p%!(EXTRA string=extra, int=7): a bno such file or directory" ++ [nl] ++ lit "EOF") /\
  text_of ex_recipe = spec_text ex_recipe.
Proof. exact ex_recipe_ok. Qed.

Example C10_example :
  let env := mkbenv [] in
  let r := RHint (RWrap (RStdNew (lit "inner: x")) (lit "outer")) (lit "h") in
  match fst (build env r bs_init) with
  | Some e => error_text e = lit "outer: inner: x"
  | None => False
  end /\ fst (build env (RHint (RWrap RNil (lit "outer")) (lit "h")) bs_init) = None.
Proof. vm_compute. split; reflexivity. Qed.
