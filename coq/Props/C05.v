(* C05 -- Decoding is total: no panic, always an error.
   Statements only; proofs in Proofs/DecodeFacts.v.  [decode] transcribes
   DecodeError with every registered decoder, each with the comma-ok payload
   tests of the (repaired) code: a decoder that does not get the payload it needs
   returns nil and DecodeError falls back to the opaque types.  The functions are
   total Gallina functions; the content of these theorems is WHICH value comes
   out, for every wire message: the opaque stand-in carrying the message
   verbatim, or a node of the type the wire names over the decoded cause(s).
   That the Go decoders really take no other path (no unchecked assertion, no
   index out of range) is decided on every run by the registry-wide fault sweep
   under recover(), and by comparing the decoded error with this model. *)
From Errv Require Import Base.Str Model.Err Model.Sem Model.Details Model.Marks Model.Codec
     Proofs.CodecFacts Proofs.DecodeFacts.

Theorem C05_leaf : forall p msg d cs n,
  let e := fst (decode p (ELeaf msg d cs) n) in
  (exists i es, e = OLeaf i msg d es /\ List.length es = List.length cs) \/
  (is_opaque e = false /\
   (type_key e = dt_fam d \/
    (dt_fam d = k_barrierPrev /\ type_key e = k_barrier) \/
    (dt_fam d = k_errno /\
     exists pe, dt_full d = Some (PlErrno pe) /\ str_eqb (en_arch pe) this_arch = false /\
                e = Leaf (node_oid e) (LOpaqueErrno msg pe)) \/
    (dt_fam d = k_opaqueErrno /\
     exists pe, dt_full d = Some (PlErrno pe) /\ str_eqb (en_arch pe) this_arch = true /\
                e = Leaf (node_oid e) (LErrno (en_errno pe))) \/
    (dt_full d = Some PlTestError /\ e = Leaf (node_oid e) LTestError))).
Proof. exact decode_leaf_cases. Qed.
Print Assumptions C05_leaf.

Theorem C05_wrapper : forall p c msg d mt n,
  let ec := fst (decode p c n) in
  let e := fst (decode p (EWrap c msg d mt) n) in
  (exists i, e = OWrap i msg d mt ec) \/
  (is_opaque e = false /\ type_key e = dt_fam d /\ unwrap_once e = Some ec).
Proof. exact decode_wrap_cases. Qed.
Print Assumptions C05_wrapper.

(* payload faults: absent, or an Any of an unregistered type *)
Theorem C05_wrapper_faulty_payload : forall p c msg o fam ext rep mt n pl,
  faulty_payload pl ->
  In fam [k_withPrefix; k_withNewMessage; k_withHint; k_withDetail; k_withContext; k_withMark;
          k_withSecondary; k_withHTTP; k_withGrpc; k_pathError; k_linkError] ->
  exists i, fst (decode p (EWrap c msg (mkdet o fam ext rep pl) mt) n)
            = OWrap i msg (mkdet o fam ext rep pl) mt (fst (decode p c n)).
Proof. intros. now apply decode_wrap_faulty_payload. Qed.
Print Assumptions C05_wrapper_faulty_payload.

Theorem C05_leaf_faulty_payload : forall p msg o fam ext rep n pl,
  faulty_payload pl ->
  In fam [k_leafError; k_barrier; k_barrierPrev; k_errno; k_grpcStatus; k_gogoStatus] ->
  exists i, fst (decode p (ELeaf msg (mkdet o fam ext rep pl) []) n) = OLeaf i msg (mkdet o fam ext rep pl) [].
Proof. intros. now apply decode_leaf_faulty_payload. Qed.
Print Assumptions C05_leaf_faulty_payload.

(* the opaque stand-ins re-encode verbatim: whatever was not understood is passed on unchanged *)
Theorem C05_reencode : forall i msg d cs pfx mt c,
  encode (OLeaf i msg d cs) = ELeaf msg d (List.map encode cs) /\
  encode (OWrap i pfx d mt c) = EWrap (encode c) pfx d mt.
Proof. intros. split; reflexivity. Qed.
Print Assumptions C05_reencode.

Example C05_example :
  (* a mark payload without types, an OK status, a barrier without payload: all opaque *)
  is_opaque (fst (decode all_knowing
     (EWrap (ELeaf (lit "x") (mkdet k_errorString k_errorString [] [] None) []) []
            (mkdet k_withMark k_withMark [] [] (Some (PlMark (lit "m") []))) 0) 100%positive)) = true /\
  is_opaque (fst (decode all_knowing
     (ELeaf (lit "x") (mkdet k_grpcStatus k_grpcStatus [] [] (Some (PlStatus 0 (lit "m")))) []) 100%positive)) = true /\
  is_opaque (fst (decode all_knowing
     (ELeaf (lit "x") (mkdet k_barrier k_barrier [] [] None) []) 100%positive)) = true.
Proof. vm_compute. repeat split. Qed.
