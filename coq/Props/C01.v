(* C01 -- Error text and cause-tree structure survive network transfer.
   Statements only; proofs in Proofs/CodecFacts.v, HopIdem.v, ExactHop.v, EraseFacts.v.

   [erase] forgets object identities (a decoded error is a new object) and the
   cached form of redacted context tags; Proofs/EraseFacts.v shows that the
   Error() text, every rendering, the safe details and the wire encoding of an
   error depend only on its erasure.  So "erase a = erase b" below means: a and b
   have the same visible tree with the same text at every node, and more.

   What is proved:
   - C01_exact_first_hop: for every error made of kinds the registered decoders
     rebuild (all library layers except the stack-trace layer, stdlib leaves, OS
     error wrappers ...), ONE hop between knowing processes gives the same error,
     whatever the strings (any bytes) and the depth.
   - C01_stable_from_second_hop: for EVERY error (stack layers, foreign and user
     types, multi-cause ...), every process (any knowledge), from the second hop on
     nothing changes any more; C01_no_drift: the wire message is a fixpoint.
   - C01_first_hop_stable_all: already from the first hop on (the side condition that
     excluded errno values forwarded from another platform disappeared with the repair
     176a263 of the library, see DESIGN.md 10.4).
   - C01_wire_shape / C01_no_drift_unknowing as before.
   - C01_text_tree_first_hop / C01_text_tree_k_hops (Proofs/TextHop.v): the FIRST hop
     (hence any number of hops) between knowing processes keeps the Error() text at
     EVERY node of the cause tree and the tree structure, for every error that
     satisfies [text_ok] -- all node kinds, including those that come back as the
     opaque stand-ins (stack layers, pkg/errors, fmt.Errorf, user types, stdlib
     joins, opaque nodes received earlier); hidden errors unconstrained; strings
     arbitrary except below a node that prints its cause through the engine, where
     they must be plain (ASCII, one line).  C01_text_conditions_needed: witnesses that
     the conditions of [text_ok] are needed (each is a behaviour of the code: the gRPC
     code OK, the ": " seam of extractPrefix, marker runes escaped in opaque text).
   Not proved: the library's Join over branches of kinds without exact decoder, and
   non-ASCII / multi-line text below prefix wrappers (true in the model on the
   evaluated samples, outside the proved predicate); decided on every run by the
   correspondence stream (text tree of model and implementation, hops 1..4). *)
From Errv Require Import Base.Str Model.Err Model.Sem Model.Details Model.Marks Model.Codec
     Proofs.CodecFacts Proofs.EraseDef Proofs.EraseFacts Proofs.HopIdem Proofs.ExactHop Proofs.TextHop.

Theorem C01_wire_shape : forall e, enc_shape (encode e) = err_shape e.
Proof. exact encode_shape. Qed.
Print Assumptions C01_wire_shape.

Theorem C01_exact_first_hop : forall e n,
  exact_tree e = true ->
  erase (fst (hop all_knowing e n)) = erase e /\
  error_text (fst (hop all_knowing e n)) = error_text e /\
  err_shape (fst (hop all_knowing e n)) = err_shape e /\
  encode (fst (hop all_knowing e n)) = encode e.
Proof.
  intros e n H. split; [exact (exact_hop e H n)|]. split; [now apply exact_hop_text|].
  split; [now apply exact_hop_shape | now apply exact_hop_encode].
Qed.
Print Assumptions C01_exact_first_hop.

Theorem C01_exact_k_hops : forall e k n,
  exact_tree e = true -> erase (fst (transfer (List.repeat all_knowing k) e n)) = erase e.
Proof. exact exact_transfer. Qed.
Print Assumptions C01_exact_k_hops.

(* every error, every process whose knowledge is closed under the renames the decoders
   perform (previous barrier type -> barrier type; errno <-> errno forwarded from another platform) *)
Theorem C01_stable_from_second_hop : forall p, proc_closed p -> forall e n n' n'',
  erase (fst (hop p (fst (hop p (fst (hop p e n)) n')) n'')) = erase (fst (hop p (fst (hop p e n)) n')).
Proof. exact hop_stable. Qed.
Print Assumptions C01_stable_from_second_hop.

Theorem C01_first_hop_stable : forall p, proc_closed p -> forall e n n',
  errno_ok p (encode e) = true ->
  erase (fst (hop p (fst (hop p e n)) n')) = erase (fst (hop p e n)).
Proof. exact hop_stable_first. Qed.
Print Assumptions C01_first_hop_stable.

(* no drift: re-encoding reproduces the same wire message *)
Theorem C01_no_drift : forall p, proc_closed p -> forall e n n' n'',
  encode (fst (hop p (fst (hop p (fst (hop p e n)) n')) n'')) = encode (fst (hop p (fst (hop p e n)) n')).
Proof. intros p Hp e n n' n''. apply same_erase_encode. now apply hop_stable. Qed.
Print Assumptions C01_no_drift.

Theorem C01_no_drift_first : forall p, proc_closed p -> forall e n n',
  errno_ok p (encode e) = true ->
  encode (fst (hop p (fst (hop p e n)) n')) = encode (fst (hop p e n)) /\
  error_text (fst (hop p (fst (hop p e n)) n')) = error_text (fst (hop p e n)).
Proof.
  intros p Hp e n n' H. pose proof (hop_stable_first p Hp e n n' H) as E.
  split; [now apply same_erase_encode|]. unfold error_text. now rewrite (same_erase_sem _ _ E).
Qed.
Print Assumptions C01_no_drift_first.

Theorem C01_no_drift_unknowing : forall p, knows_nothing p -> forall x,
  no_error_payload x = true -> forall n, encode (fst (decode p x n)) = x.
Proof. exact reencode_exact. Qed.
Print Assumptions C01_no_drift_unknowing.

(* every error, from the FIRST hop on, without any side condition (after the repair 176a263 of
   the library: an errno forwarded from another platform used to settle one hop later; the
   model found it as a side condition of this theorem, the C11 relation shows it on the code) *)
Theorem C01_first_hop_stable_all : forall p, proc_closed p -> forall e n n',
  erase (fst (hop p (fst (hop p e n)) n')) = erase (fst (hop p e n)).
Proof. exact hop_stable_first'. Qed.
Print Assumptions C01_first_hop_stable_all.

Theorem C01_foreign_errno_now_stable :
  errno_ok all_knowing foreign_errno_msg = false /\
  erase (fst (decode all_knowing (encode (fst (decode all_knowing foreign_errno_msg 100%positive))) 200%positive))
  = erase (fst (decode all_knowing foreign_errno_msg 100%positive)).
Proof. exact foreign_errno_stable. Qed.
Print Assumptions C01_foreign_errno_now_stable.

(* knowledge must be closed: a process that knows the errno type but not its forwarded form
   (or the reverse) would break it *)
Theorem C01_closure_needed :
  ~ proc_closed only_errno /\ ~ proc_closed only_opaqueErrno.
Proof. split; intros [_ H]; vm_compute in H; discriminate. Qed.
Print Assumptions C01_closure_needed.

(* the first hop keeps the text of every node and the structure: all kinds *)
Theorem C01_text_tree_first_hop : forall e n,
  text_ok e = true ->
  text_tree (fst (hop all_knowing e n)) = text_tree e /\
  error_text (fst (hop all_knowing e n)) = error_text e /\
  err_shape (fst (hop all_knowing e n)) = err_shape e /\
  text_ok (fst (hop all_knowing e n)) = true.
Proof.
  intros e n H. split; [now apply text_tree_hop|]. destruct (text_hop e n H) as (A & B & C). repeat split; assumption.
Qed.
Print Assumptions C01_text_tree_first_hop.

Theorem C01_text_tree_k_hops : forall e k n,
  text_ok e = true -> text_tree (fst (transfer (List.repeat all_knowing k) e n)) = text_tree e.
Proof. exact text_tree_transfer. Qed.
Print Assumptions C01_text_tree_k_hops.

(* [text_tree] is the text at every node, over the structure *)
Theorem C01_text_tree_meaning : forall e,
  tt_text (text_tree e) = error_text e /\ tt_shape (text_tree e) = err_shape e.
Proof. intro e. split; [apply text_tree_root|apply text_tree_shape]. Qed.
Print Assumptions C01_text_tree_meaning.

Theorem C01_text_conditions_needed :
  text_changes (Leaf 100%positive (LGrpcStatus 0 (lit "m"))) /\
  text_changes (Leaf 100%positive (LGogoStatus 0 (lit "m"))) /\
  text_changes (Wrap 101%positive (WFmtWrap (lit ": x")) (u_leaf (lit "x"))) /\
  text_changes (Wrap 101%positive (WPrefix (lit "p")) (u_leaf [226; 128; 185; 120])).
Proof. exact text_ok_conditions_needed. Qed.
Print Assumptions C01_text_conditions_needed.

(* the predicate is met by errors of every kind without an exact decoder *)
Theorem C01_text_ok_nonvacuous : forallb text_ok text_ok_samples = true.
Proof. exact text_ok_samples_ok. Qed.
Print Assumptions C01_text_ok_nonvacuous.

Example C01_example :
  let e := Wrap 102%positive (WPrefix (lit "outer")) (Wrap 101%positive (WUser UWUnwrap (lit "mid: dle") [])
             (Leaf 100%positive (LErrString (lit "x: y")))) in
  let e1 := fst (hop all_knowing e 1000%positive) in
  let e2 := fst (hop all_knowing e1 2000%positive) in
  error_text e1 = error_text e /\ error_text e = lit "outer: mid: dle: x: y" /\
  encode e2 = encode e1 /\ err_shape e1 = err_shape e /\
  exact_tree (Wrap 103%positive (WHint (lit "h")) (Wrap 102%positive (WPrefix (lit "p")) (Leaf 100%positive (LErrno 13%Z)))) = true /\
  proc_closed all_knowing.
Proof. vm_compute. repeat split. Qed.
