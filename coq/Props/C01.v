(* C01 -- Error text and cause-tree structure survive network transfer.
   Statements only; proofs in Proofs/CodecFacts.v.
   Proved so far: the wire message has the shape of the visible cause tree; a
   process that knows none of the types re-emits its input verbatim (no drift
   through unknowing processes).  The statement for knowing processes
   (C01_shape_text, C01_no_drift in DESIGN.md) is decided on every run by the
   correspondence stream and the Go-side relation; its proof is work in progress
   and listed as missing in the evidence. *)
From Errv Require Import Base.Str Model.Err Model.Sem Model.Details Model.Marks Model.Codec
     Proofs.CodecFacts.

Theorem C01_wire_shape : forall e, enc_shape (encode e) = err_shape e.
Proof. exact encode_shape. Qed.
Print Assumptions C01_wire_shape.

Theorem C01_no_drift_unknowing : forall p, knows_nothing p -> forall x,
  no_error_payload x = true -> forall n, encode (fst (decode p x n)) = x.
Proof. exact reencode_exact. Qed.
Print Assumptions C01_no_drift_unknowing.

Theorem C01_opaque_reencode : forall i msg d cs pfx mt c,
  encode (OLeaf i msg d cs) = ELeaf msg d (List.map encode cs) /\
  encode (OWrap i pfx d mt c) = EWrap (encode c) pfx d mt.
Proof. intros. split; reflexivity. Qed.
Print Assumptions C01_opaque_reencode.

Example C01_example :
  let e := Wrap 102%positive (WPrefix (lit "outer")) (Wrap 101%positive (WUser UWUnwrap (lit "mid: dle") [])
             (Leaf 100%positive (LErrString (lit "x: y")))) in
  let e1 := fst (hop all_knowing e 1000%positive) in
  let e2 := fst (hop all_knowing e1 2000%positive) in
  error_text e1 = error_text e /\ error_text e = lit "outer: mid: dle: x: y" /\
  encode e2 = encode e1 /\ err_shape e1 = err_shape e.
Proof. vm_compute. repeat split. Qed.
