(* C04 -- Unknown error types pass through a process losslessly.
   Statements only; proofs in Proofs/CodecFacts.v, HopIdem.v, Confluence.v.
   C04_confluence (Proofs/Confluence.v): for ANY intermediary p -- whatever subset of the
   types it knows, closed or not -- and any wire message, a knowing receiver decodes what
   p forwards to the same error (text, marks, Is, encoding, safe details, every accessor,
   every rendering: everything that depends on the erasure) as it decodes the original
   message; also through any chain of intermediaries.  The single side condition
   ([tp_ok] / [tp_wf]; automatic for every message produced by encoding an error that
   contains no opaque node) concerns a payload that is itself an error (a protobuf
   message implementing error), which any process returns as that error: witness. *)
From Errv Require Import Base.Str Redact.Markers Model.Err Model.Sem Model.Details Model.Marks Model.Codec
     Proofs.CodecFacts Proofs.EraseDef Proofs.EraseFacts Proofs.HopIdem Proofs.Confluence.

(* a process that knows none of the types re-encodes exactly the message it
   received (at every node; the error-typed test payload is the one proto
   message that is itself an error and is returned as such by any process) *)
Theorem C04_reencode_exact : forall p, knows_nothing p -> forall x,
  no_error_payload x = true -> forall n, encode (fst (decode p x n)) = x.
Proof. exact reencode_exact. Qed.
Print Assumptions C04_reencode_exact.

(* hence any later process reconstructs the same error as if it had received it directly *)
Theorem C04_confluence_unknowing : forall p, knows_nothing p -> forall q x n m,
  no_error_payload x = true ->
  decode q (encode (fst (decode p x n))) m = decode q x m.
Proof. intros p Hp q x n m Hx. now rewrite (reencode_exact p Hp x Hx n). Qed.
Print Assumptions C04_confluence_unknowing.

(* the opaque stand-ins show the received message and keep the origin's type
   names and safe details *)
Theorem C04_opaque_text : forall i msg d cs pfx c,
  error_text (OLeaf i msg d cs) = msg /\ error_text (OWrap i pfx d 1 c) = pfx.
Proof. intros. split; reflexivity. Qed.
Print Assumptions C04_opaque_text.

Theorem C04_names_details : forall i msg d cs pfx mt c,
  get_safe_details (OLeaf i msg d cs) = mksdp (dt_orig d) (dt_fam d) (dt_ext d) (dt_rep d) /\
  get_safe_details (OWrap i pfx d mt c) = mksdp (dt_orig d) (dt_fam d) (dt_ext d) (dt_rep d).
Proof. intros. split; [apply opaque_details_kept | apply opaque_wrapper_details_kept]. Qed.
Print Assumptions C04_names_details.

(* a process that knows only SOME of the types (any subset closed under the one
   rename the decoders perform): what it decodes from its own re-encoding is what it
   had, for every wire message free of foreign-platform errno payloads -- so a
   chain of such intermediaries does not degrade the error hop after hop *)
Theorem C04_partial_knowledge_stable : forall p, proc_closed p -> forall x,
  errno_ok p x = true -> forall n n',
  erase (fst (decode p (encode (fst (decode p x n))) n')) = erase (fst (decode p x n)).
Proof. intros p Hp x Hx n n'. now apply hop_idem. Qed.
Print Assumptions C04_partial_knowledge_stable.

Theorem C04_partial_knowledge_reencode : forall p, proc_closed p -> forall x,
  errno_ok p x = true -> forall n n',
  encode (fst (decode p (encode (fst (decode p x n))) n')) = encode (fst (decode p x n)).
Proof. intros p Hp x Hx n n'. apply same_erase_encode. now apply hop_idem. Qed.
Print Assumptions C04_partial_knowledge_reencode.

(* the full statement "same Error() text as at the origin" is refuted by the
   faithful model for barriers whose message has unsafe parts (the wire message
   is the redactable string with its markers) and for gRPC status errors (the
   wire message is the status description): recorded findings, see DESIGN.md *)
Theorem C04_text_refuted :
  exists e, error_text (fst (decode unknowing (encode e) 1000%positive)) <> error_text e.
Proof.
  exists (Barrier 100%positive (m_start ++ lit "u" ++ m_end) (Leaf 101%positive (LErrString (lit "u")))).
  vm_compute. discriminate.
Qed.
Print Assumptions C04_text_refuted.

Theorem C04_text_refuted_grpc :
  exists e, error_text (fst (decode unknowing (encode e) 1000%positive)) <> error_text e.
Proof.
  exists (Leaf 100%positive (LGrpcStatus 5 (lit "m"))). vm_compute. discriminate.
Qed.
Print Assumptions C04_text_refuted_grpc.

(* non-vacuity: the unknowing process exists, and a wrapper of a library type
   passes through it unchanged on the wire *)
Definition C04_ex : err :=
  Wrap 101%positive (WHint (lit "h")) (Wrap 100%positive (WPrefix (lit "p")) (Leaf 99%positive (LErrString (lit "x")))).
(* any intermediary, any message: the knowing receiver reconstructs the same error *)
Theorem C04_confluence : forall p x, tp_ok p all_knowing x = true -> forall n m k,
  erase (fst (decode all_knowing (encode (fst (decode p x n))) m)) = erase (fst (decode all_knowing x k)).
Proof. exact confluence. Qed.
Print Assumptions C04_confluence.

(* for errors built in the origin process (no opaque node): any chain of intermediaries *)
Theorem C04_confluence_chain : forall ps e n m k,
  native e = true ->
  erase (fst (hop all_knowing (fst (transfer ps e n)) m)) = erase (fst (hop all_knowing e k)).
Proof. exact confluence_native_transfer. Qed.
Print Assumptions C04_confluence_chain.

Theorem C04_confluence_condition_needed :
  proc_closed no_errorString /\
  tp_ok no_errorString all_knowing tp_bad_msg = false /\
  erase (fst (decode all_knowing (encode (fst (decode no_errorString tp_bad_msg 100%positive))) 200%positive))
    = Leaf 1%positive LTestError /\
  erase (fst (decode all_knowing tp_bad_msg 300%positive)) = Leaf 1%positive (LErrString (lit "m")).
Proof. exact confluence_needs_tp_ok. Qed.
Print Assumptions C04_confluence_condition_needed.

Example C04_example :
  knows_nothing unknowing /\
  no_error_payload (encode C04_ex) = true /\
  encode (fst (decode unknowing (encode C04_ex) 1000%positive)) = encode C04_ex /\
  error_text (fst (decode unknowing (encode C04_ex) 1000%positive)) = lit "p: x".
Proof. split; [exact unknowing_knows_nothing|]. vm_compute. repeat split. Qed.
