(* C18 -- Read-only use of a shared error is concurrency-safe and deterministic.
   Statements only; proofs in Proofs/ConcFacts.v.  Gen/Effects.v is regenerated
   from /repo by translators/effects (go/ssa) on every check: every function of
   the repository reachable from the observer API (formatting, redacted
   formatting, encoding, Is/As, safe details, hints/details, report, accessors)
   with the instructions that write state shared between goroutines.
   Proved: (1) the table of the current source lists no shared write; (2) threads
   without writes to shared state compute, under EVERY interleaving, exactly
   what they compute alone, and leave the shared state unchanged.  Assumed: the
   Go memory model for read-only sharing, the soundness of the SSA extraction
   (DESIGN.md), and the dependencies (fmt, redact, logtags, sentry-go), which the
   race detector exercises on every run. *)
From Coq Require Import List ZArith Bool String.
From Errv Require Import Model.Conc Gen.Effects Proofs.ConcFacts.
Import ListNotations.

Theorem C18_effects : forallb no_shared_write effects_table = true.
Proof. vm_compute. reflexivity. Qed.
Print Assumptions C18_effects.

Theorem C18_heap_unchanged : forall h s sched,
  forallb (fun tp => read_only (fst tp)) s = true -> fst (run_sched h s sched) = h.
Proof. exact sched_heap. Qed.
Print Assumptions C18_heap_unchanged.

(* each call returns the same result as when executed alone, for every schedule *)
Theorem C18_det : forall h s sched i t p,
  forallb (fun tp => read_only (fst tp)) s = true ->
  nth_error s i = Some (t, p) ->
  forall p', nth_error (snd (run_sched h s sched)) i = Some ([], p') ->
  p' = snd (run_solo h p t).
Proof. exact sched_deterministic. Qed.
Print Assumptions C18_det.

Theorem C18_no_conflicts : forall s : sys,
  forallb (fun tp => read_only (fst tp)) s = true -> flat_map (fun tp => writes_of (fst tp)) s = [].
Proof. exact no_conflicts. Qed.
Print Assumptions C18_no_conflicts.

(* the hypothesis is what matters: with a writer, results depend on the schedule *)
Theorem C18_writer_breaks :
  exists h s sched1 sched2 p1 p2,
    nth_error (snd (run_sched h s sched1)) 0 = Some ([], p1) /\
    nth_error (snd (run_sched h s sched2)) 0 = Some ([], p2) /\ p1 <> p2.
Proof. exact writer_breaks_determinism. Qed.
Print Assumptions C18_writer_breaks.

Example C18_example : (List.length effects_table > 100)%nat.
Proof. vm_compute. repeat constructor. Qed.
