(* C20 -- The gRPC interceptors deliver the handler's error to the caller.
   Statements only.  [Grpc.server] / [Grpc.client] transcribe the two
   interceptors; the transport between them is assumed to deliver code, message
   and detail messages unchanged (grpc-go and gogo/status are not modelled: that
   assumption is exercised on every run through an in-memory gRPC service). *)
From Errv Require Import Base.Str Model.Err Model.Sem Model.Details Model.Marks Model.Codec Model.Access Model.Grpc.

(* an error that is not itself a gRPC status arrives exactly as if it had been
   transferred with EncodeError / DecodeError: the SAME value, hence equal in
   text, identity, annotations and every rendering *)
Theorem C20_equiv : forall e p n,
  as_status e = None -> client p (server e) n = RDecoded (fst (hop p e n)).
Proof. intros e p n H. unfold server, client, hop. rewrite H. reflexivity. Qed.
Print Assumptions C20_equiv.

(* the status code visible to callers: the attached code, Unknown (2) when none (or OK) is attached *)
Theorem C20_code : forall e,
  as_status e = None ->
  gs_code (server e) = (if get_grpc_code e =? 0 then 2 else get_grpc_code e)%N.
Proof. intros e H. unfold server. rewrite H. reflexivity. Qed.
Print Assumptions C20_code.

Theorem C20_code_default : forall e,
  as_status e = None ->
  if_ (fun c => match c with Wrap _ (WGrpc code) _ => Some code | _ => None end) e = None ->
  gs_code (server e) = 2%N.
Proof. intros e H1 H2. rewrite C20_code by assumption. unfold get_grpc_code. rewrite H2. reflexivity. Qed.
Print Assumptions C20_code_default.

(* errors that already are gRPC status errors pass through unchanged *)
Theorem C20_passthrough : forall e st p n,
  as_status e = Some st -> server e = st /\ client p (server e) n = RStatus st.
Proof.
  intros e st p n H. unfold server. rewrite H. split; [reflexivity|].
  destruct e as [i k| | | | | |]; try discriminate. destruct k; try discriminate; injection H as <-; reflexivity.
Qed.
Print Assumptions C20_passthrough.

Example C20_example :
  let e := Wrap 102%positive (WGrpc 5) (Wrap 101%positive (WPrefix (lit "ctx")) (Leaf 100%positive (LErrString (lit "boom")))) in
  gs_code (server e) = 5%N /\ gs_msg (server e) = lit "ctx: boom" /\
  match client all_knowing (server e) 1000%positive with
  | RDecoded d => error_text d = lit "ctx: boom" /\ get_grpc_code d = 5%N
  | RStatus _ => False
  end.
Proof. vm_compute. repeat split. Qed.
