(* C14 -- Drop-in compatibility with the standard library and pkg/errors.
   [Std.std_is / std_as / std_unwrap] transcribe Go 1.23's errors package and
   [pkg_cause] pkg/errors.Cause; they are validated against the real functions
   on every run.  Statements only; proofs in Proofs/MarksFacts.v. *)
From Errv Require Import Base.Str Model.Err Model.Sem Model.Marks Model.Std Model.Report
     Proofs.FastIs Proofs.MarksFacts.

Theorem C14_is : forall e r, std_is e r = true -> is_ e r = true.
Proof. exact std_is_implies_is. Qed.
Print Assumptions C14_is.

(* when every wrapper of the tree has an Unwrap method the two As functions
   agree exactly: same first match in the same order *)
Theorem C14_as : forall e t, all_unwrap e = true -> as_ e t = std_as e t.
Proof. exact as_eq_std_as. Qed.
Print Assumptions C14_as.

(* on single-cause chains the library's As finds whatever the standard one finds
   (it additionally follows Cause(), as documented) *)
Theorem C14_as_chain : forall e t n,
  single_chain e = true -> std_as e t = Some n -> as_ e t = Some n.
Proof. exact std_as_implies_as_chain. Qed.
Print Assumptions C14_as_chain.

Theorem C14_unwrap : forall e,
  (has_unwrap e = true -> std_unwrap e = unwrap_once e) /\
  (forall i k cs, std_unwrap (Multi i k cs) = None /\ unwrap_once (Multi i k cs) = None).
Proof. intro e. split; [apply std_unwrap_agrees | intros; apply std_unwrap_multi]. Qed.
Print Assumptions C14_unwrap.

Theorem C14_cause : forall e, all_cause e = true -> pkg_cause e = unwrap_all e.
Proof. exact pkg_cause_root. Qed.
Print Assumptions C14_cause.

Theorem C14_cause_general : forall e,
  In (pkg_cause e) (chain e) /\ unwrap_all (pkg_cause e) = unwrap_all e.
Proof. exact pkg_cause_on_chain. Qed.
Print Assumptions C14_cause_general.

(* the standard functions traverse chains built by this library: on trees whose
   wrappers all have Unwrap, std_is looks at exactly the visible nodes *)
Theorem C14_std_traverses : forall e r,
  all_unwrap e = true ->
  std_is e r = existsb (fun c => own_match c r) (visit_all e).
Proof.
  intros e r. induction e using err_ind'; rewrite std_is_unfold; cbn [all_unwrap visit_all existsb]; intro Hu;
    try (rewrite orb_false_r; reflexivity).
  - apply andb_true_iff in Hu as [H1 H2]. rewrite H1, (IHe H2). reflexivity.
  - cbn [has_unwrap]. now rewrite (IHe1 Hu).
  - f_equal. rewrite existsb_flat_map. apply existsb_ext'. intros c Hc.
    rewrite Forall_forall in H. apply H; [assumption|]. rewrite forallb_forall in Hu. now apply Hu.
  - f_equal. rewrite existsb_flat_map. apply existsb_ext'. intros c Hc.
    rewrite Forall_forall in H. apply H; [assumption|]. rewrite forallb_forall in Hu. now apply Hu.
  - cbn [has_unwrap]. now rewrite (IHe Hu).
Qed.
Print Assumptions C14_std_traverses.

Example C14_example :
  let leaf := Leaf 100%positive (LErrno 13%Z) in
  let e := Wrap 102%positive (WUser UWCause (lit "c") []) (Wrap 101%positive (WHint (lit "h")) leaf) in
  std_as e (ATType (lit "syscall/syscall.Errno")) = None /\
  as_ e (ATType (lit "syscall/syscall.Errno")) = Some leaf /\
  pkg_cause e = leaf /\ single_chain e = true /\ all_unwrap e = false.
Proof. vm_compute. repeat split. Qed.
