(* C12 -- Information declared safe is retained in reports.
   Statements only; proofs in Proofs/RedactFacts.v.  Proved so far on the redact
   model: a safe argument (constant message, format literal, Safe() value) is
   printed outside any marker and is kept verbatim by Redact(); text outside
   markers is kept by Redact().  Retention through the whole engine and report is
   decided on every run by the correspondence stream and the token search on
   the implementation (proof listed as missing in the evidence). *)
From Errv Require Import Base.Str Redact.Markers Redact.Buffer Proofs.RedactFacts Proofs.RedactWf.

(* a call made only of literals and safe arguments (any bytes) prints no marker at
   all: nothing of it can be removed by Redact() *)
Theorem C12_safe_pieces_no_markers : forall ps,
  Forall (fun p => match p with PLit _ | PSafe _ => True | _ => False end) ps ->
  has_markers (sprint_pieces ps) = false.
Proof. exact safe_pieces_no_markers. Qed.
Print Assumptions C12_safe_pieces_no_markers.

Theorem C12_safe_arg_retained_partial : forall s,
  ascii s = true -> redact (sprint_pieces [PSafe s]) = s.
Proof. exact redact_safe_ascii. Qed.
Print Assumptions C12_safe_arg_retained_partial.

Theorem C12_redact_keeps_plain : forall s rest,
  no_e2 s = true -> redact (s ++ rest) = s ++ redact rest.
Proof. exact redact_plain. Qed.
Print Assumptions C12_redact_keeps_plain.

Example C12_example :
  redact (sprint_pieces [PSafe (lit "pgcode"); PLit (lit ": "); PUnsafe (lit "u")]) =
  lit "pgcode: " ++ m_redacted.
Proof. vm_compute. reflexivity. Qed.
