(* C12 -- Information declared safe is retained in reports.
   Statements only; proofs in Proofs/RedactFacts.v.  Proved so far on the redact
   model: a safe argument (constant message, format literal, Safe() value) is
   printed outside any marker and is kept verbatim by Redact(); text outside
   markers is kept by Redact().
   Proofs/SafeRetained.v, for every error tree:
   - C12_safe_piece_retained: whatever the other arguments of a message (any bytes, unsafe
     values, nested redactable strings), an ASCII literal or Safe() argument is a substring of
     the safe detail of its layer;
   - C12_nothing_lost: every safe detail that ANY layer declares -- on the cause chain, behind
     barriers, in secondary errors, at any nesting depth -- is present in GetAllSafeDetails
     (indented by two spaces per hiding level); channel instances for telemetry keys, domains,
     issue links, tag keys, message pieces; after k hops for exact-kind trees;
   - the report message contains the redacted verbose rendering and the type line of every layer.
   What is NOT retained is stated by witnesses in SafeRetained.v (details of layers inside
   multi-cause branches are in the report only; a hidden layer without details leaves no type
   name in GetAllSafeDetails; HTTP / gRPC codes are in the report only -- none of these is in the
   property's list). *)
From Errv Require Import Base.Str Redact.Markers Redact.Buffer Model.Err Model.Sem Model.Details Model.Marks
     Model.Codec Model.Report Proofs.RedactFacts Proofs.RedactWf Proofs.ReportFacts Proofs.HiddenVisible Proofs.ExactHop Proofs.SafeRetained.

(* a call made only of literals and safe arguments (any bytes) prints no marker at
   all: nothing of it can be removed by Redact() *)
Theorem C12_safe_pieces_no_markers : forall ps,
  Forall (fun p => match p with PLit _ | PSafe _ => True | _ => False end) ps ->
  has_markers (sprint_pieces ps) = false.
Proof. exact safe_pieces_no_markers. Qed.
Print Assumptions C12_safe_pieces_no_markers.

Theorem C12_safe_arg_retained_partial : forall s,
  ascii s = true -> redact (sprint_pieces [PSafe s]) = s.
Proof. exact redact_safe_ascii. Qed.
Print Assumptions C12_safe_arg_retained_partial.

Theorem C12_redact_keeps_plain : forall s rest,
  no_e2 s = true -> redact (s ++ rest) = s ++ redact rest.
Proof. exact redact_plain. Qed.
Print Assumptions C12_redact_keeps_plain.

(* ---- the whole tree ---- *)
Theorem C12_safe_piece_retained : forall pre q post s,
  pieces_ok pre -> pieces_ok post -> is_safe_piece_of q s -> ascii s = true ->
  infix_of s (redact_strip (sprint_pieces (pre ++ q :: post))).
Proof. exact safe_piece_retained. Qed.
Print Assumptions C12_safe_piece_retained.

Theorem C12_nothing_lost : forall e k n d,
  In (k, n) (deep_nodes e) -> In d (own_details n) ->
  exists p d', In p (get_all_safe_details e) /\ In d' (sd_details p) /\ d' = indent_k k d.
Proof. exact deep_details_retained. Qed.
Print Assumptions C12_nothing_lost.

Theorem C12_nothing_lost_after_transfer : forall e k n lv x d,
  exact_tree e = true ->
  In (lv, x) (deep_nodes e) -> In d (own_details x) ->
  exists p, In p (get_all_safe_details (fst (transfer (List.repeat all_knowing k) e n))) /\
            In (indent_k lv d) (sd_details p).
Proof. exact deep_details_retained_after_transfer. Qed.
Print Assumptions C12_nothing_lost_after_transfer.

(* channels, anywhere in the tree (lv = number of barriers / secondary positions above) *)
Theorem C12_channels : forall e lv i c,
  (forall keys k, In (lv, Wrap i (WTelemetry keys) c) (deep_nodes e) -> In k keys ->
     exists p, In p (get_all_safe_details e) /\ In (indent_k lv k) (sd_details p)) /\
  (forall d, In (lv, Wrap i (WDomain d) c) (deep_nodes e) ->
     exists p, In p (get_all_safe_details e) /\ In (indent_k lv d) (sd_details p)) /\
  (forall url det, In (lv, Wrap i (WIssueLink url det) c) (deep_nodes e) ->
     exists p, In p (get_all_safe_details e) /\ In (indent_k lv url) (sd_details p) /\ In (indent_k lv det) (sd_details p)) /\
  (forall tags k v, In (lv, Wrap i (WContext tags None) c) (deep_nodes e) -> In (k, v) tags -> ascii k = true ->
     exists p d, In p (get_all_safe_details e) /\ In (indent_k lv d) (sd_details p) /\ infix_of k d).
Proof.
  intros e lv i c. repeat split; intros.
  - eapply deep_telemetry_key_retained; eassumption.
  - eapply deep_domain_retained; eassumption.
  - eapply deep_issue_link_retained; eassumption.
  - eapply deep_tag_key_retained; eassumption.
Qed.
Print Assumptions C12_channels.

Theorem C12_report : forall e,
  infix_of (redact_strip (fmt_red_verbose e)) (rp_message (build_report e)) /\
  (forall n, In n (visit_all e) -> infix_of (type_line n) (rp_types (build_report e))).
Proof. intro e. split; [apply report_message_has_verbose | intros n H; now apply report_type_line_retained]. Qed.
Print Assumptions C12_report.

Example C12_example :
  redact (sprint_pieces [PSafe (lit "pgcode"); PLit (lit ": "); PUnsafe (lit "u")]) =
  lit "pgcode: " ++ m_redacted.
Proof. vm_compute. reflexivity. Qed.
