(* C12 -- Information declared safe is retained in reports.
   Statements only; proofs in Proofs/RedactFacts.v.  Proved so far on the redact
   model: a safe argument (constant message, format literal, Safe() value) is
   printed outside any marker and is kept verbatim by Redact(); text outside
   markers is kept by Redact().
   Proofs/SafeRetained.v, for every error tree:
   - C12_safe_piece_retained: whatever the other arguments of a message (any bytes, unsafe
     values, nested redactable strings), an ASCII literal or Safe() argument is a substring of
     the safe detail of its layer;
   - C12_nothing_lost: every safe detail that ANY layer declares -- on the cause chain, behind
     barriers, in secondary errors, at any nesting depth -- is present in GetAllSafeDetails
     (indented by two spaces per hiding level); channel instances for telemetry keys, domains,
     issue links, tag keys, message pieces; after k hops for exact-kind trees;
   - the report message contains the redacted verbose rendering and the type line of every layer.
   What is NOT retained is stated by witnesses in SafeRetained.v (details of layers inside
   multi-cause branches are in the report only; a hidden layer without details leaves no type
   name in GetAllSafeDetails; HTTP / gRPC codes are in the report only -- none of these is in the
   property's list). *)
From Errv Require Import Base.Str Redact.Markers Redact.Buffer Model.Err Model.Sem Model.Details Model.Marks
     Model.Codec Model.Report Proofs.RedactFacts Proofs.RedactWf Proofs.ReportFacts Proofs.HiddenVisible Proofs.ExactHop Proofs.SafeRetained Proofs.ApiWf Proofs.ApiRetained.
From Errv Require Import Model.Build.

(* a call made only of literals and safe arguments (any bytes) prints no marker at
   all: nothing of it can be removed by Redact() *)
Theorem C12_safe_pieces_no_markers : forall ps,
  Forall (fun p => match p with PLit _ | PSafe _ => True | _ => False end) ps ->
  has_markers (sprint_pieces ps) = false.
Proof. exact safe_pieces_no_markers. Qed.
Print Assumptions C12_safe_pieces_no_markers.

Theorem C12_safe_arg_retained_partial : forall s,
  ascii s = true -> redact (sprint_pieces [PSafe s]) = s.
Proof. exact redact_safe_ascii. Qed.
Print Assumptions C12_safe_arg_retained_partial.

Theorem C12_redact_keeps_plain : forall s rest,
  no_e2 s = true -> redact (s ++ rest) = s ++ redact rest.
Proof. exact redact_plain. Qed.
Print Assumptions C12_redact_keeps_plain.

(* ---- the whole tree ---- *)
Theorem C12_safe_piece_retained : forall pre q post s,
  pieces_ok pre -> pieces_ok post -> is_safe_piece_of q s -> ascii s = true ->
  infix_of s (redact_strip (sprint_pieces (pre ++ q :: post))).
Proof. exact safe_piece_retained. Qed.
Print Assumptions C12_safe_piece_retained.

Theorem C12_nothing_lost : forall e k n d,
  In (k, n) (deep_nodes e) -> In d (own_details n) ->
  exists p d', In p (get_all_safe_details e) /\ In d' (sd_details p) /\ d' = indent_k k d.
Proof. exact deep_details_retained. Qed.
Print Assumptions C12_nothing_lost.

Theorem C12_nothing_lost_after_transfer : forall e k n lv x d,
  exact_tree e = true ->
  In (lv, x) (deep_nodes e) -> In d (own_details x) ->
  exists p, In p (get_all_safe_details (fst (transfer (List.repeat all_knowing k) e n))) /\
            In (indent_k lv d) (sd_details p).
Proof. exact deep_details_retained_after_transfer. Qed.
Print Assumptions C12_nothing_lost_after_transfer.

(* channels, anywhere in the tree (lv = number of barriers / secondary positions above) *)
Theorem C12_channels : forall e lv i c,
  (forall keys k, In (lv, Wrap i (WTelemetry keys) c) (deep_nodes e) -> In k keys ->
     exists p, In p (get_all_safe_details e) /\ In (indent_k lv k) (sd_details p)) /\
  (forall d, In (lv, Wrap i (WDomain d) c) (deep_nodes e) ->
     exists p, In p (get_all_safe_details e) /\ In (indent_k lv d) (sd_details p)) /\
  (forall url det, In (lv, Wrap i (WIssueLink url det) c) (deep_nodes e) ->
     exists p, In p (get_all_safe_details e) /\ In (indent_k lv url) (sd_details p) /\ In (indent_k lv det) (sd_details p)) /\
  (forall tags k v, In (lv, Wrap i (WContext tags None) c) (deep_nodes e) -> In (k, v) tags -> ascii k = true ->
     exists p d, In p (get_all_safe_details e) /\ In (indent_k lv d) (sd_details p) /\ infix_of k d).
Proof.
  intros e lv i c. repeat split; intros.
  - eapply deep_telemetry_key_retained; eassumption.
  - eapply deep_domain_retained; eassumption.
  - eapply deep_issue_link_retained; eassumption.
  - eapply deep_tag_key_retained; eassumption.
Qed.
Print Assumptions C12_channels.

Theorem C12_report : forall e,
  infix_of (redact_strip (fmt_red_verbose e)) (rp_message (build_report e)) /\
  (forall n, In n (visit_all e) -> infix_of (type_line n) (rp_types (build_report e))).
Proof. intro e. split; [apply report_message_has_verbose | intros n H; now apply report_type_line_retained]. Qed.
Print Assumptions C12_report.

(* ---- on CONSTRUCTOR EXPRESSIONS (Proofs/ApiRetained.v): [safe_inputs r] lists every string the expression passes
   through a safe channel in a part that becomes part of the error (message of New / Wrap / WithMessage; literals and
   Safe() arguments of the formats of Newf / AssertionFailedf / Wrapf / WithMessagef / WithSafeDetails /
   NewAssertionErrorWithWrappedErrf; what the attached error arguments of Newf / AssertionFailedf / Wrapf pass
   themselves; issue-link URL and detail; telemetry keys; domains; tag keys and safe tag values; sub-expressions that
   evaluate to nil, what is attached to a nil error and the reference of Mark contribute nothing).  Every such string that
   is ASCII is, verbatim, in GetAllSafeDetails or in the report message; when it is not empty, in GetAllSafeDetails.
   [frag]: no Join, no transfer; with error arguments in message formats the conditions of C06_api_short.  What a
   constructor does NOT retain is witnessed below. ---- *)
Theorem C12_api_retained : forall env r s e s' t,
  frag r = true -> build env r s = (Some e, s') -> In t (safe_inputs r) -> ok_piece t = true -> retained t e.
Proof. exact api_retained. Qed.
Print Assumptions C12_api_retained.

Theorem C12_api_in_details : forall env r s e s' t,
  frag r = true -> build env r s = (Some e, s') -> In t (safe_inputs r) -> ok_piece t = true -> t <> [] ->
  exists p d, In p (get_all_safe_details e) /\ In d (sd_details p) /\ infix_of t d.
Proof. exact api_retained_in_details. Qed.
Print Assumptions C12_api_in_details.

(* WithMessagef, WithSafeDetails, HandledWithMessagef, WithHintf and WithDetailf print an error ARGUMENT of their format
   without attaching it (Newf / AssertionFailedf / Wrapf attach theirs as secondary errors): what such an argument
   carries in its own safe channels is in neither output -- the reason why [safe_inputs] does not list it *)
Example C12_api_arguments_not_attached :
  In (lit "key1") (safe_inputs r_arg) /\
  ~ retained (lit "key1") (built (RWithMessagef (RNew (lit "boom")) f_arg)) /\
  ~ retained (lit "key1") (built (RSafeDetails (RNew (lit "boom")) f_arg)) /\
  ~ retained (lit "key1") (built (RHandledMsgf (RNew (lit "boom")) f_arg)) /\
  ~ retained (lit "key1") (built (RHintf (RNew (lit "boom")) f_arg)) /\
  ~ retained (lit "key1") (built (RDetailf (RNew (lit "boom")) f_arg)) /\
  mentions (lit "key1") (built (RWrapf (RNew (lit "boom")) f_arg)) = true.
Proof. exact withmessagef_arg_not_retained. Qed.

(* the hypotheses are met by a non-trivial expression, whose nine safe inputs are listed *)
Example C12_api_example :
  frag r_ex = true /\
  safe_inputs r_ex = [lit "boom"; lit "key.one"; lit "dom.x"; lit "while doing "; lit "step7"; lit " for ";
                      lit "other"; lit "https://issue/1"; lit "det1"].
Proof. exact r_ex_inputs. Qed.

Example C12_example :
  redact (sprint_pieces [PSafe (lit "pgcode"); PLit (lit ": "); PUnsafe (lit "u")]) =
  lit "pgcode: " ++ m_redacted.
Proof. vm_compute. reflexivity. Qed.
