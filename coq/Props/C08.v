(* C08 -- Is/IsAny are total, reflexive, monotone and decide mark equivalence.
   Statements only; proofs in Proofs/MarksFacts.v, Proofs/FastIs.v.
   Totality: [is_] / [is_any] are the transcription of markers.Is / IsAny with
   the comparability guard of the code ([own_match] tests [comparable r] before
   Go's ==); the only panic site of the Go code, == on two values of the same
   non-comparable type, is excluded by that guard (C08_no_uncomparable_eq). *)
From Errv Require Import Base.Str Model.Err Model.Sem Model.Marks Model.Report
     Proofs.FastIs Proofs.MarksFacts.

(* Go's == is evaluated only when the reference's type is comparable, so the
   "comparing uncomparable type" panic cannot happen *)
Theorem C08_no_uncomparable_eq : forall c r,
  comparable r = false -> own_match c r = is_method c r /\ guarded_eq c r = Ok false.
Proof. intros c r H. unfold own_match, guarded_eq. rewrite H. split; reflexivity. Qed.
Print Assumptions C08_no_uncomparable_eq.

Theorem C08_refl : forall e, is_ e e = true.
Proof. exact is_refl. Qed.
Print Assumptions C08_refl.

(* Is(e, r) implies Is(w(e), r) for every wrapper and for every multi-cause
   error having e among its branches *)
Theorem C08_mono : forall e r, is_ e r = true ->
  (forall i w, is_ (Wrap i w e) r = true) /\
  (forall i s, is_ (Second i e s) r = true) /\
  (forall i p d mt, is_ (OWrap i p d mt e) r = true) /\
  (forall i k cs, In e cs -> is_ (Multi i k cs) r = true) /\
  (forall i m d cs, In e cs -> is_ (OLeaf i m d cs) r = true).
Proof.
  intros e r H. repeat split; intros.
  - now apply is_mono_wrap.
  - now apply is_mono_second.
  - now apply is_mono_owrap.
  - now apply (is_mono_multi i k cs e).
  - now apply (is_mono_oleaf i m d cs e).
Qed.
Print Assumptions C08_mono.

Theorem C08_is_any : forall e refs, is_any e refs = existsb (fun r => is_ e r) refs.
Proof. exact is_any_spec. Qed.
Print Assumptions C08_is_any.

Theorem C08_nil : forall r, is_opt None r = match r with None => true | Some _ => false end.
Proof. exact is_opt_nil. Qed.
Print Assumptions C08_nil.

(* equalMarks decides equality of marks: message, every (type, extension) pair
   and the length of the chain *)
Theorem C08_equal_marks : forall m1 m2, equal_marks m1 m2 = true <-> m1 = m2.
Proof. exact equal_marks_spec. Qed.
Print Assumptions C08_equal_marks.

(* exact characterisation: some visible layer of e is identical to r, or says so
   through its own Is method, or has the same mark *)
Theorem C08_char : forall e r,
  is_ e r = true <->
  exists c, In c (visit_all e) /\ (own_match c r = true \/ get_mark c = get_mark r).
Proof. exact is_char. Qed.
Print Assumptions C08_char.

Theorem C08_mark : forall i e r x,
  is_ (mark_ i e r) x =
  (own_match (mark_ i e r) x || equal_marks (get_mark r) (get_mark x)) || is_ e x.
Proof. exact is_mark. Qed.
Print Assumptions C08_mark.

(* non-vacuity: a reference whose type chain is a strict prefix of the candidate's
   does not match (the case that used to index out of range), nor the reverse *)
Example C08_example :
  let leaf := Leaf 100%positive (LUser ULPlain (lit "x") 0%Z []) in
  let dual := Wrap 101%positive (WUser UWEmpty [] []) leaf in
  let bare := Leaf 102%positive (LUser ULPlain (lit "x") 0%Z []) in
  is_ dual bare = true /\ is_ bare dual = false /\
  is_ (Wrap 103%positive (WHint (lit "h")) leaf) bare = true /\
  is_ (Wrap 103%positive (WHint (lit "h")) leaf) (Wrap 104%positive (WDetail (lit "h")) leaf) = false.
Proof. vm_compute. repeat split. Qed.
