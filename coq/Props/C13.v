(* C13 -- Multi-cause errors behave as a tree.  Statements only. *)
From Errv Require Import Base.Str Model.Err Model.Sem Model.Marks Model.Std Model.Report Model.Codec Model.Build
     Proofs.FastIs Proofs.MarksFacts Proofs.BuildFacts Proofs.CodecFacts Proofs.SpecText.

(* Is succeeds exactly on the error itself or on at least one branch, in order *)
Theorem C13_is : forall i k cs r,
  is_ (Multi i k cs) r =
  (own_match (Multi i k cs) r || mark_match (Multi i k cs) r) || existsb (fun c => is_ c r) cs.
Proof. exact is_multi. Qed.
Print Assumptions C13_is.

Theorem C13_is_any : forall e refs, is_any e refs = existsb (fun r => is_ e r) refs.
Proof. exact is_any_spec. Qed.
Print Assumptions C13_is_any.

(* As: the node itself, else the first branch (in order) where As succeeds *)
Theorem C13_as : forall i k cs t,
  as_ (Multi i k cs) t =
  if assignable (Multi i k cs) t then Some (Multi i k cs) else first_some (fun c => as_ c t) cs.
Proof. exact as_multi. Qed.
Print Assumptions C13_as.

(* Unwrap / UnwrapOnce / UnwrapAll treat them as leaves *)
Theorem C13_leaf : forall i k cs,
  unwrap_once (Multi i k cs) = None /\ unwrap_all (Multi i k cs) = Multi i k cs /\
  std_unwrap (Multi i k cs) = None /\ unwrap_multi (Multi i k cs) = cs.
Proof. intros. repeat split; reflexivity. Qed.
Print Assumptions C13_leaf.

(* the standard library's Join: the branch messages joined by newlines *)
Theorem C13_stdjoin_text : forall i cs,
  error_text (Multi i MStdJoin cs) = join [nl] (List.map error_text cs).
Proof. exact stdjoin_text. Qed.
Print Assumptions C13_stdjoin_text.

(* the library's Join: the branch messages joined by newlines (one-line branches whose
   text is plain; through the formatting engine, which is what Error() of a join runs) *)
Theorem C13_join_text : forall i cs,
  cs <> [] -> Forall one_line cs -> Forall agood cs ->
  error_text (Multi i MJoin cs) = join [nl] (List.map error_text cs).
Proof. exact mjoin_text. Qed.
Print Assumptions C13_join_text.

Example C13_join_example :
  let a := Leaf 100%positive (LErrString (lit "a")) in
  let b := Leaf 101%positive (LErrno 2%Z) in
  error_text (Multi 102%positive MJoin [a; b]) = lit "a" ++ [nl] ++ lit "no such file or directory".
Proof. vm_compute. reflexivity. Qed.

(* the one_line hypothesis is necessary: a branch whose text ends in a newline (likewise an empty text or a blank
   line) loses that newline, because the join prints through the engine's Write.  The witness replayed on the
   implementation is the recorded finding join-blank-line-branch: Join(New("x\n"), New("c")).Error() = "x\nc". *)
Theorem C13_join_text_blank_refuted : exists i cs,
  cs <> [] /\ error_text (Multi i MJoin cs) <> join [nl] (List.map error_text cs).
Proof.
  exists 110%positive, [Leaf 100%positive (LErrString (lit "x" ++ [nl])); Leaf 102%positive (LErrString (lit "c"))].
  split; [discriminate|]. vm_compute. discriminate.
Qed.
Print Assumptions C13_join_text_blank_refuted.

(* on the wire: branch count and order are those of the error *)
Theorem C13_wire_shape : forall e, enc_shape (encode e) = err_shape e.
Proof. exact encode_shape. Qed.
Print Assumptions C13_wire_shape.

(* an unknowing process keeps the branches: the opaque node has one cause per wire cause *)
Theorem C13_opaque_branches : forall i msg d cs, unwrap_multi (OLeaf i msg d cs) = cs.
Proof. reflexivity. Qed.
Print Assumptions C13_opaque_branches.

Example C13_example :
  let a := Leaf 100%positive (LErrString (lit "a")) in
  let b := Leaf 101%positive (LErrno 2%Z) in
  let j := Multi 102%positive MStdJoin [a; b] in
  is_ j b = true /\ error_text j = lit "a" ++ [nl] ++ lit "no such file or directory" /\
  unwrap_once j = None.
Proof. vm_compute. repeat split. Qed.
