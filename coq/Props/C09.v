(* C09 -- Formatting verbs are mutually consistent.
   Statements only; proofs in Proofs/EngineFacts.v.  Proved so far on the engine
   model: the engine produces exactly one entry per visible layer (for every tree,
   flag combination and starting state), and the verbose rendering lists the Go
   type of every entry, in entry order, on its last line.  "%v = %s = Error()",
   the layout of each entry and fmt's own verbs are decided on every run by the
   byte-exact correspondence of %v / %+v and the implementation-side relation
   (their proof is listed as missing in the evidence). *)
From Errv Require Import Base.Str Redact.Markers Redact.Buffer Model.Err Model.Sem Model.Report
     Proofs.EngineFacts.

Theorem C09_one_entry_per_layer : forall e o d w k st,
  snd (ns_fmt (sem e) o d w k st) = List.length (visit_all e) /\
  List.length (fs_entries (fst (ns_fmt (sem e) o d w k st))) =
  (List.length (fs_entries st) + List.length (visit_all e))%nat.
Proof. intros. split; [apply fmt_count | apply fmt_entries_length]. Qed.
Print Assumptions C09_one_entry_per_layer.

Theorem C09_verbose_entries : forall e red,
  List.length (fs_entries (fst (ns_fmt (sem e) true true false 0%nat (st_init red true)))) =
  List.length (visit_all e).
Proof. exact verbose_entries. Qed.
Print Assumptions C09_verbose_entries.

(* the verbose rendering ends with the 'Error types' line naming the type of every entry in order *)
Theorem C09_types_line : forall red e0 es,
  exists body, format_entries red (e0 :: es) =
               body ++ nl :: lit "Error types:" ++ types_line (e0 :: es) 1.
Proof.
  intros. unfold format_entries. eexists.
  rewrite !app_comm_cons, !app_assoc. reflexivity.
Qed.
Print Assumptions C09_types_line.

Example C09_example :
  let e := Wrap 101%positive (WHint (lit "h")) (Leaf 100%positive (LErrString (lit "boom"))) in
  fmt_plain_short e = lit "boom" /\ error_text e = lit "boom" /\
  fmt_plain_verbose e =
    lit "boom" ++ [nl] ++ lit "(1) h" ++ [nl] ++ lit "Wraps: (2) boom" ++ [nl] ++
    lit "Error types: (1) *hintdetail.withHint (2) *errors.errorString".
Proof. vm_compute. repeat split. Qed.
