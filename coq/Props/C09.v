(* C09 -- Formatting verbs are mutually consistent.
   Statements only; proofs in Proofs/EngineFacts.v, Proofs/ShortText.v.  Proved on
   the engine model:
   - %v (and %s: the engine treats them alike) of any error passed through
     Formattable is exactly its Error() text, for every tree of every kind whose
     printed strings are "plain" ([plain_tree]: no newline, non-empty messages,
     ASCII where the string goes through the escaping layer; hidden errors and
     elided causes are unconstrained).  For strings with newlines the statement is
     false in general (the engine drops leading / trailing newlines; the property
     quantifies over regular text only): those are decided by the correspondence.
   - exactly one entry per visible layer, for every tree, flag combination and state;
   - the verbose rendering ends with the Go type of every entry, in entry order.
   fmt's own verbs (%q %x %X, width, precision, flags) are applied by fmt to that
   text: not modelled, decided by the implementation-side relation. *)
From Errv Require Import Base.Str Redact.Markers Redact.Buffer Model.Err Model.Sem Model.Report
     Proofs.EngineFacts Proofs.ShortText.

Theorem C09_v_s : forall e, plain_tree e = true -> fmt_plain_short e = error_text e.
Proof. exact fmt_plain_short_is_error_text. Qed.
Print Assumptions C09_v_s.

(* the class is not vacuous and not trivial: library and foreign layers, sentinels, an OS error *)
Example C09_v_s_example :
  plain_tree (Wrap 104%positive (WPrefix (lit "outer")) (Wrap 103%positive (WStack [])
    (Wrap 102%positive (WHint (lit "any\nhint")) (Wrap 101%positive (WPathError (lit "open") (lit "/tmp/x"))
      (Leaf 100%positive (LErrno 2%Z)))))) = true.
Proof. vm_compute. reflexivity. Qed.

(* RECORDED FINDING (known_findings.txt, operror-arrow-spacing): the statement is false of the
   faithful model, and of the code, for a *net.OpError with both a source and an address: the
   engine's special-case printer writes "src -> addr", Error() "src->addr".  [plain_tree] excludes
   exactly that shape (and an OpError whose head is empty); with at most one of the two it holds. *)
Theorem C09_v_s_operror_refuted :
  error_text operror_both = lit "dial tcp 10.0.0.1:1->10.0.0.2:2: refused" /\
  fmt_plain_short operror_both = lit "dial tcp 10.0.0.1:1 -> 10.0.0.2:2: refused" /\
  fmt_plain_short operror_both <> error_text operror_both.
Proof. split; [|split]; [vm_compute; reflexivity | vm_compute; reflexivity | exact operror_arrow_refuted]. Qed.
Print Assumptions C09_v_s_operror_refuted.

Theorem C09_one_entry_per_layer : forall e o d w k st,
  snd (ns_fmt (sem e) o d w k st) = List.length (visit_all e) /\
  List.length (fs_entries (fst (ns_fmt (sem e) o d w k st))) =
  (List.length (fs_entries st) + List.length (visit_all e))%nat.
Proof. intros. split; [apply fmt_count | apply fmt_entries_length]. Qed.
Print Assumptions C09_one_entry_per_layer.

Theorem C09_verbose_entries : forall e red,
  List.length (fs_entries (fst (ns_fmt (sem e) true true false 0%nat (st_init red true)))) =
  List.length (visit_all e).
Proof. exact verbose_entries. Qed.
Print Assumptions C09_verbose_entries.

(* the verbose rendering ends with the 'Error types' line naming the type of every entry in order *)
Theorem C09_types_line : forall red e0 es,
  exists body, format_entries red (e0 :: es) =
               body ++ nl :: lit "Error types:" ++ types_line (e0 :: es) 1.
Proof.
  intros. unfold format_entries. eexists.
  rewrite !app_comm_cons, !app_assoc. reflexivity.
Qed.
Print Assumptions C09_types_line.

Example C09_example :
  let e := Wrap 101%positive (WHint (lit "h")) (Leaf 100%positive (LErrString (lit "boom"))) in
  fmt_plain_short e = lit "boom" /\ error_text e = lit "boom" /\
  fmt_plain_verbose e =
    lit "boom" ++ [nl] ++ lit "(1) h" ++ [nl] ++ lit "Wraps: (2) boom" ++ [nl] ++
    lit "Error types: (1) *hintdetail.withHint (2) *errors.errorString".
Proof. vm_compute. repeat split. Qed.
