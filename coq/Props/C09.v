(* C09 -- Formatting verbs are mutually consistent.
   Statements only; proofs in Proofs/EngineFacts.v, Proofs/ShortText.v.  Proved on
   the engine model:
   - %v (and %s: the engine treats them alike) of any error passed through
     Formattable is exactly its Error() text, for every tree of every kind whose
     printed strings are "plain" ([plain_tree]: no newline, non-empty messages,
     ASCII where the string goes through the escaping layer; hidden errors and
     elided causes are unconstrained).  For strings with newlines the statement is
     false in general (the engine drops leading / trailing newlines; the property
     quantifies over regular text only): those are decided by the correspondence.
   - exactly one entry per visible layer, for every tree, flag combination and state;
   - the verbose rendering ends with the Go type of every entry, in entry order.
   - the exact LAYOUT of %+v (Proofs/VerboseLayout.v): first line, one entry per layer labelled
     "(1)" / "Wraps: (k)" with the multi-cause indentation, then the 'Error types' line in entry
     order (C09_layout); each layer's entry carries its type, its stack and -- for library
     wrappers -- exactly the detail text its kind prints (C09_entries, C09_own_detail_visible);
     %+v starts with the Error() text for plain trees whose short entries are settled
     (C09_verbose_starts_with_text; the unconditional statement is false: three witnesses in
     VerboseLayout.v, the recorded multi-line finding among them);
     the entries follow the ENGINE's order (a node, its multi-cause branches last to first,
     then its cause), a permutation of the traversal order and equal to it on chain-like trees
     (C09_entry_order; witness that they differ in general).
   fmt's own verbs (%q %x %X, width, precision, flags) are applied by fmt to that
   text: not modelled, decided by the implementation-side relation. *)
From Errv Require Import Base.Str Redact.Markers Redact.Buffer Model.Err Model.Sem Model.Report
     Proofs.EngineFacts Proofs.ShortText Proofs.HiddenVisible Proofs.VerboseLayout.
From Coq Require Import Permutation.

Theorem C09_v_s : forall e, plain_tree e = true -> fmt_plain_short e = error_text e.
Proof. exact fmt_plain_short_is_error_text. Qed.
Print Assumptions C09_v_s.

(* the class is not vacuous and not trivial: library and foreign layers, sentinels, an OS error *)
Example C09_v_s_example :
  plain_tree (Wrap 104%positive (WPrefix (lit "outer")) (Wrap 103%positive (WStack [])
    (Wrap 102%positive (WHint (lit "any\nhint")) (Wrap 101%positive (WPathError (lit "open") (lit "/tmp/x"))
      (Leaf 100%positive (LErrno 2%Z)))))) = true.
Proof. vm_compute. reflexivity. Qed.

(* RECORDED FINDING (known_findings.txt, operror-arrow-spacing): the statement is false of the
   faithful model, and of the code, for a *net.OpError with both a source and an address: the
   engine's special-case printer writes "src -> addr", Error() "src->addr".  [plain_tree] excludes
   exactly that shape (and an OpError whose head is empty); with at most one of the two it holds. *)
Theorem C09_v_s_operror_refuted :
  error_text operror_both = lit "dial tcp 10.0.0.1:1->10.0.0.2:2: refused" /\
  fmt_plain_short operror_both = lit "dial tcp 10.0.0.1:1 -> 10.0.0.2:2: refused" /\
  fmt_plain_short operror_both <> error_text operror_both.
Proof. split; [|split]; [vm_compute; reflexivity | vm_compute; reflexivity | exact operror_arrow_refuted]. Qed.
Print Assumptions C09_v_s_operror_refuted.

Theorem C09_one_entry_per_layer : forall e o d w k st,
  snd (ns_fmt (sem e) o d w k st) = List.length (visit_all e) /\
  List.length (fs_entries (fst (ns_fmt (sem e) o d w k st))) =
  (List.length (fs_entries st) + List.length (visit_all e))%nat.
Proof. intros. split; [apply fmt_count | apply fmt_entries_length]. Qed.
Print Assumptions C09_one_entry_per_layer.

Theorem C09_verbose_entries : forall e red,
  List.length (fs_entries (fst (ns_fmt (sem e) true true false 0%nat (st_init red true)))) =
  List.length (visit_all e).
Proof. exact verbose_entries. Qed.
Print Assumptions C09_verbose_entries.

(* the verbose rendering ends with the 'Error types' line naming the type of every entry in order *)
Theorem C09_types_line : forall red e0 es,
  exists body, format_entries red (e0 :: es) =
               body ++ nl :: lit "Error types:" ++ types_line (e0 :: es) 1.
Proof.
  intros. unfold format_entries. eexists.
  rewrite !app_comm_cons, !app_assoc. reflexivity.
Qed.
Print Assumptions C09_types_line.

(* ---- exact layout of the verbose rendering, every error, plain and redactable ---- *)
Theorem C09_layout : forall e red,
  final_verbose (sem e) red =
  single_line red (ventries e red) [] ++
  nl :: join [nl] (entry_lines red (ventries e red) 1) ++
  nl :: lit "Error types:" ++
  List.concat (type_items_of (List.map go_type_string (engine_order e)) 1).
Proof. exact verbose_layout. Qed.
Print Assumptions C09_layout.

Theorem C09_entries : forall e red,
  Forall2 (own_clause true red) (ventries e red) (engine_order e) /\
  List.map fe_depth (ventries e red) = depths e false 0%nat.
Proof. exact verbose_entries_spec. Qed.
Print Assumptions C09_entries.

Theorem C09_entry_order : forall e,
  Permutation (engine_order e) (visit_all e) /\
  (chainlike e = true -> engine_order e = visit_all e).
Proof. intro e. split; [apply engine_order_perm | apply engine_order_chainlike]. Qed.
Print Assumptions C09_entry_order.

(* a library wrapper's own detail is shown in its own numbered entry *)
Theorem C09_own_detail_visible : forall e red p i w c ws c0 t,
  nth_error (engine_order e) p = Some (Wrap i w c) ->
  wrap_detail_writes w = Some ws ->
  wrap_shown w red (dlayout ws) = c0 :: t -> (c0 =? nl) = false ->
  infix_of (lit "(" ++ dec_of_N (N.of_nat (S p)) ++ lit ") " ++
            (if wrap_red w || negb red then c0 :: t else escape_bytes (c0 :: t)))
           (final_verbose (sem e) red).
Proof. exact wrapper_detail_visible. Qed.
Print Assumptions C09_own_detail_visible.

Theorem C09_verbose_starts_with_text : forall e,
  plain_tree e = true -> forallb settled (sentries e false) = true ->
  exists rest, fmt_plain_verbose e = error_text e ++ nl :: lit "(1)" ++ rest.
Proof. exact plain_verbose_starts_with_error_text. Qed.
Print Assumptions C09_verbose_starts_with_text.

Example C09_example :
  let e := Wrap 101%positive (WHint (lit "h")) (Leaf 100%positive (LErrString (lit "boom"))) in
  fmt_plain_short e = lit "boom" /\ error_text e = lit "boom" /\
  fmt_plain_verbose e =
    lit "boom" ++ [nl] ++ lit "(1) h" ++ [nl] ++ lit "Wraps: (2) boom" ++ [nl] ++
    lit "Error types: (1) *hintdetail.withHint (2) *errors.errorString".
Proof. vm_compute. repeat split. Qed.
