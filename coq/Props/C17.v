(* C17 -- Type renames do not break cross-version identity.
   Statements only; proofs in Proofs/MigrateFacts.v.  [register] transcribes
   errbase.RegisterTypeMigration (validated against the real registry on every
   run through the migration hook). *)
From Errv Require Import Base.Str Model.Migrate Proofs.StrFacts Proofs.MigrateFacts.
From Coq Require Import Permutation.

(* registering the same target twice is rejected *)
Theorem C17_dup : forall p1 p2 new r r', register p1 new r = Some r' -> register p2 new r' = None.
Proof. exact register_twice. Qed.
Print Assumptions C17_dup.

(* ORDER INDEPENDENCE, for rename chains of ANY length and any distinct names:
   whatever the order in which the renames k0->k1, k1->k2, ... are registered,
   registration succeeds and every name of the chain is encoded under k0 *)
Theorem C17_order : forall ks regs,
  NoDup ks -> Permutation regs (chain_edges ks) ->
  exists r, register_all regs [] = Some r /\ forall k, In k ks -> resolve r k = hd [] ks.
Proof.
  intros ks regs Hn Hp. destruct (chain_any_order_succeeds ks regs Hn Hp) as [r Hr].
  exists r. split; [exact Hr|]. intros k Hk. exact (chain_any_order ks regs r Hn Hp Hr k Hk).
Qed.
Print Assumptions C17_order.

(* encoded under the original name; arriving under the original name it is decoded to the new type *)
Theorem C17_encode_decode : forall v k0,
  knows_as v k0 ->
  (forall h, create v = Some h -> send v h = k0) /\
  (forall n, v_local v = Some n -> receive v k0 = Local n).
Proof.
  intros v k0 H. split; intros.
  - now apply (encode_under_original v k0 h).
  - now apply (decode_to_local v k0 n).
Qed.
Print Assumptions C17_encode_decode.

(* every assignment of {old name, new name, other rename, not knowing the type}
   to sender / intermediary / receiver: the receiver sees family k0 and its Is
   agrees with an error of its own version of the type *)
Theorem C17_versions : forall s i r k0 hs,
  knows_as s k0 -> knows_as i k0 -> knows_as r k0 -> create s = Some hs ->
  family_of r (hop_v i r (hop_v s i hs)) = k0 /\
  family_of r (hop_v s r hs) = k0 /\
  (forall hr, create r = Some hr -> same_type r (hop_v i r (hop_v s i hs)) hr = true).
Proof. exact versions_agree. Qed.
Print Assumptions C17_versions.

Example C17_example :
  let a := lit "pkg/A" in let b := lit "pkg/B" in let c := lit "pkg/C" in
  (* the order that used to leave C mapped to B *)
  register_all [(a, b); (b, c)] [] = Some [(c, a); (b, a)] /\
  register_all [(b, c); (a, b)] [] = Some [(b, a); (c, a)] /\
  register_all [(a, b); (a, b)] [] = None.
Proof. vm_compute. repeat split. Qed.
