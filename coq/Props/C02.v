(* C02 -- Error identity (Is/IsAny) is invariant under network transfer.
   Statements only; proofs in Proofs/MarksFacts.v, IsErase.v, HopIdem.v, ExactHop.v.

   A decoded error is a new object: it shares no object identity with any
   reference the receiving process holds ([disjoint_ref]).  For such references
   Is / IsAny are functions of the error's erasure (C02_is_erasure): identity can
   only come from value equality, a type's own Is method, or the marks.  Combined
   with the transfer theorems of C01 this gives:
   - errors of kinds with exact decoders: Is after one (hence any number of) knowing
     hop(s) is Is before, for every reference not sharing an identity with the
     original either (C02_exact_hop);
   - every error, every process with closed knowledge: from the second hop on Is
     never changes again (C02_stable).
   - the FIRST hop, every kind (Proofs/MarkHop.v): the mark (message + full sequence of
     type marks) of EVERY visible node is kept by one (hence k) knowing hop(s) for every
     error satisfying text_ok (C01) and mark_ok (no forced mark without types, no forwarded
     errno whose platform is this one: both witnessed necessary), and so is Is / IsAny
     against every reference that existed before the transfer and is not accepted by a
     USER type's own Is method (those methods cannot survive: the type is not known on the
     other side -- witness); symmetric statement for a transferred reference. *)
From Errv Require Import Base.Str Model.Err Model.Sem Model.Details Model.Marks Model.Codec Model.Report
     Proofs.FastIs Proofs.MarksFacts Proofs.CodecFacts Proofs.EraseDef Proofs.EraseFacts Proofs.HopIdem
     Proofs.ExactHop Proofs.IsErase Proofs.TextHop Proofs.MarkHop.

Theorem C02_decided_by_marks : forall e r,
  is_ e r = true <->
  exists c, In c (visit_all e) /\ (own_match c r = true \/ get_mark c = get_mark r).
Proof. exact is_char. Qed.
Print Assumptions C02_decided_by_marks.

(* Is / IsAny cannot distinguish errors with the same erasure *)
Theorem C02_is_erasure : forall a b r,
  erase a = erase b -> disjoint_ref a r -> disjoint_ref b r -> is_ a r = is_ b r.
Proof. exact is_same_erase. Qed.
Print Assumptions C02_is_erasure.

Theorem C02_is_any_erasure : forall a b rs,
  erase a = erase b -> Forall (disjoint_ref a) rs -> Forall (disjoint_ref b) rs -> is_any a rs = is_any b rs.
Proof. exact is_any_same_erase. Qed.
Print Assumptions C02_is_any_erasure.

(* when only the reference has been transferred: the same, unless the match came
   from syscall.Errno's own Is method comparing the reference with the os sentinels
   by identity -- exactly the exemption the property states *)
Theorem C02_reference_side : forall e r1 r2,
  erase r1 = erase r2 -> not_os_sentinel r1 -> not_os_sentinel r2 ->
  (forall c, In c (visit_all e) -> value_kind c = false -> node_oid c <> node_oid r1 /\ node_oid c <> node_oid r2) ->
  is_ e r1 = is_ e r2.
Proof. exact is_ref_same_erase_fresh. Qed.
Print Assumptions C02_reference_side.

Theorem C02_reference_exemption_needed :
  exists e r1 r2, erase r1 = erase r2 /\ is_ e r1 = true /\ is_ e r2 = false.
Proof.
  exists (Leaf 50%positive (LErrno 13%Z)), (Leaf oid_permission (LErrString (lit "permission denied"))),
         (Leaf 200%positive (LErrString (lit "permission denied"))).
  vm_compute. repeat split.
Qed.
Print Assumptions C02_reference_exemption_needed.

(* errors of kinds with exact decoders: one knowing hop does not change Is *)
Theorem C02_exact_hop : forall e r n,
  exact_tree e = true -> disjoint_ref e r -> disjoint_ref (fst (hop all_knowing e n)) r ->
  is_ (fst (hop all_knowing e n)) r = is_ e r.
Proof. intros e r n H H1 H2. apply is_same_erase; [now apply exact_hop_erase|assumption|assumption]. Qed.
Print Assumptions C02_exact_hop.

(* every error: from the second hop on Is never changes *)
Theorem C02_stable : forall p, proc_closed p -> forall e r n n' n'',
  let e2 := fst (hop p (fst (hop p e n)) n') in
  let e3 := fst (hop p e2 n'') in
  disjoint_ref e2 r -> disjoint_ref e3 r -> is_ e3 r = is_ e2 r.
Proof. intros p Hp e r n n' n'' e2 e3 H2 H3. apply is_same_erase; [now apply hop_stable|assumption|assumption]. Qed.
Print Assumptions C02_stable.

(* an opaque stand-in carries the origin's (family, extension) as its type mark *)
Theorem C02_opaque_mark : forall i msg d cs,
  get_mark (OLeaf i msg d cs) = mkem msg [mktm (dt_fam d) (dt_ext d)].
Proof. reflexivity. Qed.
Print Assumptions C02_opaque_mark.

(* hops through processes that know none of the types are invisible to every later process *)
Theorem C02_unknowing_hops : forall p, knows_nothing p -> forall q x n m r,
  no_error_payload x = true ->
  is_ (fst (decode q (encode (fst (decode p x n))) m)) r = is_ (fst (decode q x m)) r.
Proof. intros p Hp q x n m r Hx. now rewrite (reencode_exact p Hp x Hx n). Qed.
Print Assumptions C02_unknowing_hops.

(* first hop, all kinds: the marks of every visible node *)
Theorem C02_marks_first_hop : forall e k n,
  text_ok e = true -> mark_ok e = true ->
  mark_tree (fst (transfer (List.repeat all_knowing k) e n)) = mark_tree e.
Proof. exact mark_tree_transfer. Qed.
Print Assumptions C02_marks_first_hop.

(* ... hence Is, for a reference r that existed before the transfer (oid below the
   receiver's counter) and shares no identity with e *)
Theorem C02_is_after_transfer : forall e r k n,
  text_ok e = true -> mark_ok e = true ->
  disjoint_ref e r -> (node_oid r < n)%positive ->
  (forall c, In c (visit_all e) -> user_leaf c = true -> is_method c r = false) ->
  is_ (fst (transfer (List.repeat all_knowing k) e n)) r = is_ e r.
Proof. exact is_transfer_fresh. Qed.
Print Assumptions C02_is_after_transfer.

(* the reference transferred instead *)
Theorem C02_is_reference_transferred : forall e' r k n,
  text_ok r = true -> mark_ok r = true ->
  (5 < n)%positive -> older_than n e' ->
  (forall c, In c (visit_all e') -> own_match c r = true -> mark_match c r = true) ->
  is_ e' (fst (transfer (List.repeat all_knowing k) r n)) = is_ e' r.
Proof. exact is_ref_transfer_fresh. Qed.
Print Assumptions C02_is_reference_transferred.

(* the extra conditions are needed *)
Theorem C02_mark_ok_needed :
  ~ (forall e n, text_ok e = true -> mark_tree (fst (hop all_knowing e n)) = mark_tree e).
Proof. exact mark_tree_hop_needs_mark_ok. Qed.
Print Assumptions C02_mark_ok_needed.

Theorem C02_user_is_method_lost :
  text_ok cx_istag = true /\ mark_ok cx_istag = true /\
  disjoint_refb cx_istag cx_istag_ref = true /\ no_user_isb cx_istag cx_istag_ref = false /\
  mark_tree (fst (hop all_knowing cx_istag 200%positive)) = mark_tree cx_istag /\
  is_ cx_istag cx_istag_ref = true /\ is_ (fst (hop all_knowing cx_istag 200%positive)) cx_istag_ref = false.
Proof. exact is_hop_needs_no_user_is. Qed.
Print Assumptions C02_user_is_method_lost.

Example C02_first_hop_example :
  text_ok mh_sample = true /\ mark_ok mh_sample = true /\
  forallb (disjoint_refb mh_sample) mh_refs = true /\
  forallb (no_user_isb mh_sample) mh_refs = true /\
  List.map (is_ mh_sample) mh_refs = [true; true; true; false].
Proof. exact mh_sample_ok. Qed.

Example C02_example :
  let e := Wrap 101%positive (WHint (lit "h")) (Leaf oid_canceled (LErrString (lit "context canceled"))) in
  let r := Leaf oid_canceled (LErrString (lit "context canceled")) in
  let e1 := fst (transfer [unknowing; all_knowing] e 1000%positive) in
  is_ e r = true /\ is_ e1 r = true /\ is_ e1 e = true /\
  is_ e1 (Leaf 7%positive (LErrString (lit "other"))) = false /\ exact_tree e = true.
Proof. vm_compute. repeat split. Qed.
