(* C02 -- Error identity (Is/IsAny) is invariant under network transfer.
   Statements only.  Proved so far: identity is decided by marks ([C02_decided_by_marks]),
   opaque stand-ins report the origin's type marks, and passing through processes
   that know none of the types changes nothing for any later process.  The
   statement for knowing hops is decided on every run by the correspondence
   stream and the Go-side relation (proof in progress). *)
From Errv Require Import Base.Str Model.Err Model.Sem Model.Details Model.Marks Model.Codec Model.Report
     Proofs.FastIs Proofs.MarksFacts Proofs.CodecFacts.

Theorem C02_decided_by_marks : forall e r,
  is_ e r = true <->
  exists c, In c (visit_all e) /\ (own_match c r = true \/ get_mark c = get_mark r).
Proof. exact is_char. Qed.
Print Assumptions C02_decided_by_marks.

(* an opaque stand-in carries the origin's (family, extension) as its type mark *)
Theorem C02_opaque_mark : forall i msg d cs,
  get_mark (OLeaf i msg d cs) = mkem msg [mktm (dt_fam d) (dt_ext d)].
Proof. reflexivity. Qed.
Print Assumptions C02_opaque_mark.

Theorem C02_opaque_wrapper_mark : forall i pfx d mt c,
  em_types (get_mark (OWrap i pfx d mt c)) = mktm (dt_fam d) (dt_ext d) :: em_types (mkem [] (ns_tmarks (sem c))).
Proof. reflexivity. Qed.
Print Assumptions C02_opaque_wrapper_mark.

(* hops through processes that know none of the types are invisible to every
   later process, for Is against any reference *)
Theorem C02_unknowing_hops : forall p, knows_nothing p -> forall q x n m r,
  no_error_payload x = true ->
  is_ (fst (decode q (encode (fst (decode p x n))) m)) r = is_ (fst (decode q x m)) r.
Proof. intros p Hp q x n m r Hx. now rewrite (reencode_exact p Hp x Hx n). Qed.
Print Assumptions C02_unknowing_hops.

Example C02_example :
  let e := Wrap 101%positive (WHint (lit "h")) (Leaf oid_canceled (LErrString (lit "context canceled"))) in
  let r := Leaf oid_canceled (LErrString (lit "context canceled")) in
  let e1 := fst (transfer [unknowing; all_knowing] e 1000%positive) in
  is_ e r = true /\ is_ e1 r = true /\ is_ e1 e = true /\
  is_ e1 (Leaf 7%positive (LErrString (lit "other"))) = false.
Proof. vm_compute. repeat split. Qed.
