(* C11 -- Annotations survive network transfer.  Statements only.
   Proved so far: every annotation layer is rebuilt by its decoder from what its
   encoder sent (one theorem per payload kind, for any cause), and hops through
   unknowing processes are invisible to later processes.  The composition over
   whole trees is decided on every run by the correspondence stream and the
   Go-side relation (proof in progress). *)
From Errv Require Import Base.Str Model.Err Model.Sem Model.Details Model.Marks Model.Codec Model.Access
     Proofs.CodecFacts Proofs.RoundTrip.

Theorem C11_layers : forall i c n, exists j,
  (forall h, fst (hop all_knowing (Wrap i (WHint h) c) n) = Wrap j (WHint h) (fst (hop all_knowing c n))) /\
  (forall d, fst (hop all_knowing (Wrap i (WDetail d) c) n) = Wrap j (WDetail d) (fst (hop all_knowing c n))) /\
  (forall u d, fst (hop all_knowing (Wrap i (WIssueLink u d) c) n) = Wrap j (WIssueLink u d) (fst (hop all_knowing c n))) /\
  (forall ks, fst (hop all_knowing (Wrap i (WTelemetry ks) c) n) = Wrap j (WTelemetry ks) (fst (hop all_knowing c n))) /\
  (forall d, fst (hop all_knowing (Wrap i (WDomain d) c) n) = Wrap j (WDomain d) (fst (hop all_knowing c n))) /\
  (fst (hop all_knowing (Wrap i WAssert c) n) = Wrap j WAssert (fst (hop all_knowing c n))) /\
  (forall m, em_types m <> [] ->
     fst (hop all_knowing (Wrap i (WMark m) c) n) = Wrap j (WMark m) (fst (hop all_knowing c n))) /\
  (forall code, fst (hop all_knowing (Wrap i (WGrpc code) c) n) = Wrap j (WGrpc code) (fst (hop all_knowing c n))) /\
  (forall code, (0 <= code)%Z ->
     fst (hop all_knowing (Wrap i (WHTTP code) c) n) = Wrap j (WHTTP code) (fst (hop all_knowing c n))).
Proof. exact layers_roundtrip. Qed.
Print Assumptions C11_layers.

Theorem C11_unknowing_hops : forall p, knows_nothing p -> forall q x n m,
  no_error_payload x = true ->
  decode q (encode (fst (decode p x n))) m = decode q x m.
Proof. intros p Hp q x n m Hx. now rewrite (reencode_exact p Hp x Hx n). Qed.
Print Assumptions C11_unknowing_hops.

Example C11_example :
  let e := Wrap 103%positive (WHint (lit "h")) (Wrap 102%positive (WDomain (lit "error domain: d"))
            (Wrap 101%positive (WTelemetry [lit "k1"; lit "k2"]) (Leaf 100%positive (LErrString (lit "x"))))) in
  let e1 := fst (transfer [all_knowing; all_knowing] e 1000%positive) in
  get_all_hints e1 = get_all_hints e /\ get_domain e1 = get_domain e /\
  get_telemetry_keys e1 = get_telemetry_keys e /\ get_all_hints e = [lit "h"].
Proof. vm_compute. repeat split. Qed.
