(* C11 -- Annotations survive network transfer.  Statements only; proofs in
   Proofs/RoundTrip.v, ExactHop.v, HopIdem.v, EraseFacts.v.
   Proved: every accessor is a function of the erasure; errors of kinds with exact
   decoders keep every annotation over one (hence any number of) knowing hop(s),
   whatever the strings; every annotation layer is rebuilt over ANY cause; for
   every error nothing changes from the second hop on.  Proofs/StackFacts.v: the
   printed-stack codec -- the frames a stack layer (the library's, pkg/errors') reports
   after a hop to ANY process are the frames it reported before (C11_stack_frames),
   they are exactly the captured frames (C11_stack_codec: parse (print st) = st, for
   frames whose names have no newline; each condition shown necessary by a witness),
   and the one-line source is kept (C11_source). *)
From Errv Require Import Base.Str Model.Err Model.Sem Model.Details Model.Marks Model.Codec Model.Access
     Proofs.CodecFacts Proofs.RoundTrip Proofs.EraseDef Proofs.EraseFacts Proofs.HopIdem Proofs.ExactHop
     Model.Report Proofs.StackFacts.

Theorem C11_exact_hop : forall e n,
  exact_tree e = true ->
  let e' := fst (hop all_knowing e n) in
  get_all_hints e' = get_all_hints e /\ get_all_details e' = get_all_details e /\
  get_all_issue_links e' = get_all_issue_links e /\ get_telemetry_keys e' = get_telemetry_keys e /\
  get_domain e' = get_domain e /\ get_context_tags e' = get_context_tags e /\
  has_assertion_failure e' = has_assertion_failure e /\ is_assertion_failure e' = is_assertion_failure e /\
  has_issue_link e' = has_issue_link e /\ has_unimplemented e' = has_unimplemented e /\
  (forall dflt, get_http_code e' dflt = get_http_code e dflt) /\ get_grpc_code e' = get_grpc_code e /\
  is_timeout e' = is_timeout e.
Proof. exact exact_hop_accessors. Qed.
Print Assumptions C11_exact_hop.

(* per-layer safe details *)
Theorem C11_exact_hop_details : forall e n,
  exact_tree e = true -> get_safe_details (fst (hop all_knowing e n)) = get_safe_details e.
Proof. exact exact_hop_details. Qed.
Print Assumptions C11_exact_hop_details.

Theorem C11_exact_k_hops : forall e k n,
  exact_tree e = true -> erase (fst (transfer (List.repeat all_knowing k) e n)) = erase e.
Proof. exact exact_transfer. Qed.
Print Assumptions C11_exact_k_hops.

(* accessors only see the erasure *)
Theorem C11_accessors_erasure : forall e,
  get_all_hints (erase e) = get_all_hints e /\ get_all_details (erase e) = get_all_details e /\
  get_all_issue_links (erase e) = get_all_issue_links e /\ get_telemetry_keys (erase e) = get_telemetry_keys e /\
  get_domain (erase e) = get_domain e /\ get_context_tags (erase e) = get_context_tags e /\
  get_safe_details (erase e) = get_safe_details e.
Proof.
  intro e. split; [apply get_all_hints_erase|]. split; [apply get_all_details_erase|].
  split; [apply get_all_issue_links_erase|]. split; [apply get_telemetry_keys_erase|].
  split; [apply get_domain_erase|]. split; [apply get_context_tags_erase | apply get_safe_details_erase].
Qed.
Print Assumptions C11_accessors_erasure.

(* every error, any process with closed knowledge: nothing changes from the second hop on *)
Theorem C11_stable : forall p, proc_closed p -> forall e n n' n'',
  let e2 := fst (hop p (fst (hop p e n)) n') in
  let e3 := fst (hop p e2 n'') in
  get_all_hints e3 = get_all_hints e2 /\ get_all_details e3 = get_all_details e2 /\
  get_telemetry_keys e3 = get_telemetry_keys e2 /\ get_domain e3 = get_domain e2 /\
  get_context_tags e3 = get_context_tags e2 /\ get_safe_details e3 = get_safe_details e2.
Proof.
  intros p Hp e n n' n'' e2 e3. pose proof (hop_stable p Hp e n n' n'') as E. fold e2 in E. fold e3 in E.
  repeat split.
  - now rewrite <- (get_all_hints_erase e3), E, get_all_hints_erase.
  - now rewrite <- (get_all_details_erase e3), E, get_all_details_erase.
  - now rewrite <- (get_telemetry_keys_erase e3), E, get_telemetry_keys_erase.
  - now rewrite <- (get_domain_erase e3), E, get_domain_erase.
  - now rewrite <- (get_context_tags_erase e3), E, get_context_tags_erase.
  - now apply same_erase_safe_details.
Qed.
Print Assumptions C11_stable.

(* each annotation layer is rebuilt over any cause (also over stack layers, foreign types ...) *)
Theorem C11_layers : forall i c n, exists j,
  (forall h, fst (hop all_knowing (Wrap i (WHint h) c) n) = Wrap j (WHint h) (fst (hop all_knowing c n))) /\
  (forall d, fst (hop all_knowing (Wrap i (WDetail d) c) n) = Wrap j (WDetail d) (fst (hop all_knowing c n))) /\
  (forall u d, fst (hop all_knowing (Wrap i (WIssueLink u d) c) n) = Wrap j (WIssueLink u d) (fst (hop all_knowing c n))) /\
  (forall ks, fst (hop all_knowing (Wrap i (WTelemetry ks) c) n) = Wrap j (WTelemetry ks) (fst (hop all_knowing c n))) /\
  (forall d, fst (hop all_knowing (Wrap i (WDomain d) c) n) = Wrap j (WDomain d) (fst (hop all_knowing c n))) /\
  (fst (hop all_knowing (Wrap i WAssert c) n) = Wrap j WAssert (fst (hop all_knowing c n))) /\
  (forall m, em_types m <> [] ->
     fst (hop all_knowing (Wrap i (WMark m) c) n) = Wrap j (WMark m) (fst (hop all_knowing c n))) /\
  (forall code, fst (hop all_knowing (Wrap i (WGrpc code) c) n) = Wrap j (WGrpc code) (fst (hop all_knowing c n))) /\
  (forall code, (0 <= code)%Z ->
     fst (hop all_knowing (Wrap i (WHTTP code) c) n) = Wrap j (WHTTP code) (fst (hop all_knowing c n))).
Proof. exact layers_roundtrip. Qed.
Print Assumptions C11_layers.

Theorem C11_unknowing_hops : forall p, knows_nothing p -> forall q x n m,
  no_error_payload x = true ->
  decode q (encode (fst (decode p x n))) m = decode q x m.
Proof. intros p Hp q x n m Hx. now rewrite (reencode_exact p Hp x Hx n). Qed.
Print Assumptions C11_unknowing_hops.

(* reportable stack frames of the stack-carrying layers across a hop to any process *)
Theorem C11_stack_frames : forall p i st c m n,
  st <> [] ->
  get_reportable_stack (fst (hop p (Wrap i (WStack st) c) n)) = get_reportable_stack (Wrap i (WStack st) c) /\
  get_reportable_stack (fst (hop p (Wrap i (WPkgStack st) c) n)) = get_reportable_stack (Wrap i (WPkgStack st) c) /\
  get_reportable_stack (fst (hop p (Leaf i (LPkgFund m st)) n)) = get_reportable_stack (Leaf i (LPkgFund m st)).
Proof.
  intros p i st c m n H. repeat split;
    [now apply stack_hop_withstack_any|now apply stack_hop_pkgstack_any|now apply stack_hop_pkgfund_any].
Qed.
Print Assumptions C11_stack_frames.

(* the printed form is a codec: what the receiver parses is what was captured *)
Theorem C11_stack_codec : forall st,
  forallb frame_ok st = true -> st <> [] ->
  parse_printed_stack (print_stack st) = List.map frame_of (List.rev st).
Proof. exact parse_print_stack. Qed.
Print Assumptions C11_stack_codec.

Theorem C11_stack_frames_received : forall p i st c n,
  forallb frame_ok st = true -> st <> [] ->
  get_reportable_stack (fst (hop p (Wrap i (WStack st) c) n)) = Some (List.map frame_of (List.rev st)).
Proof. exact stack_hop_frames. Qed.
Print Assumptions C11_stack_frames_received.

(* the one-line source of a stack layer survives the hop when it does for the cause *)
Theorem C11_source : forall p i f r c n,
  frame_ok f = true ->
  get_one_line_source (fst (hop p c n)) = get_one_line_source c ->
  get_one_line_source (fst (hop p (Wrap i (WStack (f :: r)) c) n)) = get_one_line_source (Wrap i (WStack (f :: r)) c).
Proof. exact source_hop_withstack. Qed.
Print Assumptions C11_source.

(* an errno received from another platform keeps its predicates on every further hop
   (library repair 176a263; before it the second hop gave a plain opaque leaf) *)
Example C11_foreign_errno :
  let e := Wrap 101%positive (WHint (lit "h"))
             (Leaf 100%positive (LOpaqueErrno (lit "no such file or directory")
                (mkerrno 2%Z (lit "plan9:mips") false false true false false))) in
  let e2 := fst (transfer [all_knowing; all_knowing; all_knowing] e 1000%positive) in
  exact_tree e = true /\ is_notexist e = true /\ is_notexist e2 = true /\ erase e2 = erase e.
Proof. vm_compute. repeat split. Qed.

Example C11_example :
  let e := Wrap 103%positive (WHint (lit "h")) (Wrap 102%positive (WDomain (lit "error domain: d"))
            (Wrap 101%positive (WTelemetry [lit "k1"; lit "k2"]) (Leaf 100%positive (LErrString (lit "x"))))) in
  let e1 := fst (transfer [all_knowing; all_knowing] e 1000%positive) in
  exact_tree e = true /\
  get_all_hints e1 = get_all_hints e /\ get_domain e1 = get_domain e /\
  get_telemetry_keys e1 = get_telemetry_keys e /\ get_all_hints e = [lit "h"].
Proof. vm_compute. repeat split. Qed.
