(* C11 -- Annotations survive network transfer.  Statements only; proofs in
   Proofs/RoundTrip.v, ExactHop.v, HopIdem.v, EraseFacts.v.
   Proved: every accessor is a function of the erasure; errors of kinds with exact
   decoders keep every annotation over one (hence any number of) knowing hop(s),
   whatever the strings; every annotation layer is rebuilt over ANY cause; for
   every error nothing changes from the second hop on.  Not proved: the printed
   stack codec (reportable frames of stack layers across the first hop) -- decided
   on every run by the correspondence stream (frames, one-line source) and the
   implementation-side relation. *)
From Errv Require Import Base.Str Model.Err Model.Sem Model.Details Model.Marks Model.Codec Model.Access
     Proofs.CodecFacts Proofs.RoundTrip Proofs.EraseDef Proofs.EraseFacts Proofs.HopIdem Proofs.ExactHop.

Theorem C11_exact_hop : forall e n,
  exact_tree e = true ->
  let e' := fst (hop all_knowing e n) in
  get_all_hints e' = get_all_hints e /\ get_all_details e' = get_all_details e /\
  get_all_issue_links e' = get_all_issue_links e /\ get_telemetry_keys e' = get_telemetry_keys e /\
  get_domain e' = get_domain e /\ get_context_tags e' = get_context_tags e /\
  has_assertion_failure e' = has_assertion_failure e /\ is_assertion_failure e' = is_assertion_failure e /\
  has_issue_link e' = has_issue_link e /\ has_unimplemented e' = has_unimplemented e /\
  (forall dflt, get_http_code e' dflt = get_http_code e dflt) /\ get_grpc_code e' = get_grpc_code e /\
  is_timeout e' = is_timeout e.
Proof. exact exact_hop_accessors. Qed.
Print Assumptions C11_exact_hop.

(* per-layer safe details *)
Theorem C11_exact_hop_details : forall e n,
  exact_tree e = true -> get_safe_details (fst (hop all_knowing e n)) = get_safe_details e.
Proof. exact exact_hop_details. Qed.
Print Assumptions C11_exact_hop_details.

Theorem C11_exact_k_hops : forall e k n,
  exact_tree e = true -> erase (fst (transfer (List.repeat all_knowing k) e n)) = erase e.
Proof. exact exact_transfer. Qed.
Print Assumptions C11_exact_k_hops.

(* accessors only see the erasure *)
Theorem C11_accessors_erasure : forall e,
  get_all_hints (erase e) = get_all_hints e /\ get_all_details (erase e) = get_all_details e /\
  get_all_issue_links (erase e) = get_all_issue_links e /\ get_telemetry_keys (erase e) = get_telemetry_keys e /\
  get_domain (erase e) = get_domain e /\ get_context_tags (erase e) = get_context_tags e /\
  get_safe_details (erase e) = get_safe_details e.
Proof.
  intro e. split; [apply get_all_hints_erase|]. split; [apply get_all_details_erase|].
  split; [apply get_all_issue_links_erase|]. split; [apply get_telemetry_keys_erase|].
  split; [apply get_domain_erase|]. split; [apply get_context_tags_erase | apply get_safe_details_erase].
Qed.
Print Assumptions C11_accessors_erasure.

(* every error, any process with closed knowledge: nothing changes from the second hop on *)
Theorem C11_stable : forall p, proc_closed p -> forall e n n' n'',
  let e2 := fst (hop p (fst (hop p e n)) n') in
  let e3 := fst (hop p e2 n'') in
  get_all_hints e3 = get_all_hints e2 /\ get_all_details e3 = get_all_details e2 /\
  get_telemetry_keys e3 = get_telemetry_keys e2 /\ get_domain e3 = get_domain e2 /\
  get_context_tags e3 = get_context_tags e2 /\ get_safe_details e3 = get_safe_details e2.
Proof.
  intros p Hp e n n' n'' e2 e3. pose proof (hop_stable p Hp e n n' n'') as E. fold e2 in E. fold e3 in E.
  repeat split.
  - now rewrite <- (get_all_hints_erase e3), E, get_all_hints_erase.
  - now rewrite <- (get_all_details_erase e3), E, get_all_details_erase.
  - now rewrite <- (get_telemetry_keys_erase e3), E, get_telemetry_keys_erase.
  - now rewrite <- (get_domain_erase e3), E, get_domain_erase.
  - now rewrite <- (get_context_tags_erase e3), E, get_context_tags_erase.
  - now apply same_erase_safe_details.
Qed.
Print Assumptions C11_stable.

(* each annotation layer is rebuilt over any cause (also over stack layers, foreign types ...) *)
Theorem C11_layers : forall i c n, exists j,
  (forall h, fst (hop all_knowing (Wrap i (WHint h) c) n) = Wrap j (WHint h) (fst (hop all_knowing c n))) /\
  (forall d, fst (hop all_knowing (Wrap i (WDetail d) c) n) = Wrap j (WDetail d) (fst (hop all_knowing c n))) /\
  (forall u d, fst (hop all_knowing (Wrap i (WIssueLink u d) c) n) = Wrap j (WIssueLink u d) (fst (hop all_knowing c n))) /\
  (forall ks, fst (hop all_knowing (Wrap i (WTelemetry ks) c) n) = Wrap j (WTelemetry ks) (fst (hop all_knowing c n))) /\
  (forall d, fst (hop all_knowing (Wrap i (WDomain d) c) n) = Wrap j (WDomain d) (fst (hop all_knowing c n))) /\
  (fst (hop all_knowing (Wrap i WAssert c) n) = Wrap j WAssert (fst (hop all_knowing c n))) /\
  (forall m, em_types m <> [] ->
     fst (hop all_knowing (Wrap i (WMark m) c) n) = Wrap j (WMark m) (fst (hop all_knowing c n))) /\
  (forall code, fst (hop all_knowing (Wrap i (WGrpc code) c) n) = Wrap j (WGrpc code) (fst (hop all_knowing c n))) /\
  (forall code, (0 <= code)%Z ->
     fst (hop all_knowing (Wrap i (WHTTP code) c) n) = Wrap j (WHTTP code) (fst (hop all_knowing c n))).
Proof. exact layers_roundtrip. Qed.
Print Assumptions C11_layers.

Theorem C11_unknowing_hops : forall p, knows_nothing p -> forall q x n m,
  no_error_payload x = true ->
  decode q (encode (fst (decode p x n))) m = decode q x m.
Proof. intros p Hp q x n m Hx. now rewrite (reencode_exact p Hp x Hx n). Qed.
Print Assumptions C11_unknowing_hops.

Example C11_example :
  let e := Wrap 103%positive (WHint (lit "h")) (Wrap 102%positive (WDomain (lit "error domain: d"))
            (Wrap 101%positive (WTelemetry [lit "k1"; lit "k2"]) (Leaf 100%positive (LErrString (lit "x"))))) in
  let e1 := fst (transfer [all_knowing; all_knowing] e 1000%positive) in
  exact_tree e = true /\
  get_all_hints e1 = get_all_hints e /\ get_domain e1 = get_domain e /\
  get_telemetry_keys e1 = get_telemetry_keys e /\ get_all_hints e = [lit "h"].
Proof. vm_compute. repeat split. Qed.
