(* C16 -- Stacks and package domains are attributed to the right caller.
   Statements only; proofs in Proofs/DepthFacts.v.  Gen/DepthTable.v is
   regenerated from /repo by translators/depthtab on every check: every
   top-level function that reaches runtime.Callers / runtime.Caller, with its
   forwarding calls and their depth arguments.  [exec] is the concrete semantics
   (a call pushes a frame; runtime.Callers(skip) / runtime.Caller(skip) count
   frames as the Go runtime documents).  Assumed, not proved: that the runtime
   reports logical frames that way also under inlining (exercised on every run
   by the harness through non-inlinable call chains, depths 0..3). *)
From Coq Require Import String Ascii ZArith List Bool.
From Errv Require Import Model.Depth Gen.DepthTable Proofs.DepthFacts.
Import ListNotations.
Open Scope Z_scope.

(* the table regenerated from the current source passes the static check ... *)
Theorem C16_table_ok : table_ok depth_table = true.
Proof. exact table_checked. Qed.
Print Assumptions C16_table_ok.

(* ... and the check is sound for the semantics, for EVERY depth d and every
   stack: each function the property names (New*, Errorf, Wrap*, WithStack*,
   AssertionFailed*, HandleAsAssertionFailure*, NewAssertionErrorWithWrappedErrf,
   Join*, PackageDomain*, domains.New, domains.Handled) captures the stack
   starting d frames above its caller (0 for the variants without depth) *)
Theorem C16_attribution : forall t f,
  table_ok t = true -> In f (entries t) ->
  forall d U, 0 <= d -> d <= Z.of_nat (List.length U) ->
  forall c, In c (exec t (fuel_of t) f d (fn_name f :: U)) ->
  c = Some (skipn (Z.to_nat (if fn_has_depth f then d else 0)) U).
Proof. exact attribution_sound. Qed.
Print Assumptions C16_attribution.

Theorem C16_captures_something : forall t f,
  table_ok t = true -> In f (entries t) -> forall d U, exec t (fuel_of t) f d (fn_name f :: U) <> [].
Proof. exact attribution_nonempty. Qed.
Print Assumptions C16_captures_something.

(* instantiated on the current source: for every depth, every named function *)
Theorem C16_current_source : forall f, In f (entries depth_table) ->
  forall d U, 0 <= d -> d <= Z.of_nat (List.length U) ->
  forall c, In c (exec depth_table (fuel_of depth_table) f d (fn_name f :: U)) ->
  c = Some (skipn (Z.to_nat (if fn_has_depth f then d else 0)) U).
Proof. intros f Hf. exact (attribution_sound depth_table f table_checked Hf). Qed.
Print Assumptions C16_current_source.

Example C16_example : entries depth_table <> [] /\
  (* a forwarding function that passes depth unchanged is rejected by the check *)
  table_ok [mkfn ".PackageDomainAtDepth" true true [(CFn "domains.PackageDomainAtDepth", 1, 0)];
            mkfn "domains.PackageDomainAtDepth" true true [(CCaller, 1, 1)]] = false.
Proof. split; [exact table_entries_nonempty | vm_compute; reflexivity]. Qed.
