(* C15 -- The Sentry report is faithful to the error's structure.
   Statements only; proofs in Proofs/ReportFacts.v.  [build_report] transcribes
   report.BuildSentryReport for a non-nil error (for nil the Go function returns
   nothing before doing anything: the runner prints "none"). *)
From Errv Require Import Base.Str Redact.Markers Redact.Buffer Model.Err Model.Sem Model.Details Model.Marks
     Model.Access Model.Report Model.Codec Proofs.RedactFacts Proofs.ReportFacts Proofs.StackFacts Proofs.ReportLines.

(* the message begins with [file:line: ] + the redacted verbose rendering + the
   composition header *)
Theorem C15_message : forall e, exists rest,
  rp_message (build_report e) =
  (match get_one_line_source e with
   | Some (f, l, _) => f ++ [colon] ++ dec_of_Z l ++ lit ": "
   | None => []
   end) ++ strip_markers (redact (fmt_red_verbose e)) ++ [nl] ++ lit "-- report composition:" ++ [nl] ++ rest.
Proof. exact report_message_prefix. Qed.
Print Assumptions C15_message.

(* exactly one exception per layer that carries a stack trace, one synthetic
   exception when none does *)
Theorem C15_exception_count : forall e,
  List.length (rp_exceptions (build_report e)) =
  Nat.max 1 (List.length (filter has_stack (visit_all e))).
Proof. exact report_exception_count. Qed.
Print Assumptions C15_exception_count.

(* ordered outermost first, each with the frames of that layer's stack *)
Theorem C15_exception_frames : forall e,
  filter has_stack (visit_all e) <> [] ->
  List.map ex_frames (rp_exceptions (build_report e)) =
  List.map get_reportable_stack (filter has_stack (visit_all e)).
Proof. exact report_exception_frames. Qed.
Print Assumptions C15_exception_frames.

(* the error's domain as module *)
Theorem C15_modules : forall e x, In x (rp_exceptions (build_report e)) -> ex_module x = get_domain e.
Proof. exact report_modules. Qed.
Print Assumptions C15_modules.

(* the 'error types' extra: one line per layer with its type name and mark, innermost first *)
Theorem C15_types : forall e,
  rp_types (build_report e) = List.concat (List.map type_line (rev (visit_all e))).
Proof. exact report_types. Qed.
Print Assumptions C15_types.

(* decoded errors: the frames re-parsed from the printed stack are the captured ones,
   and the source prefix of the message comes from the same first frame *)
Theorem C15_decoded_frames : forall p i st c n,
  forallb frame_ok st = true -> st <> [] ->
  get_reportable_stack (fst (hop p (Wrap i (WStack st) c) n)) = Some (List.map frame_of (List.rev st)).
Proof. exact stack_hop_frames. Qed.
Print Assumptions C15_decoded_frames.

Theorem C15_decoded_source : forall f r,
  frame_ok f = true -> source_of_printed (print_stack (f :: r)) = source_of_frame f.
Proof. exact source_of_printed_stack. Qed.
Print Assumptions C15_decoded_source.

(* the whole message, exactly: [source: ] verbose rendering, header, one composition line per
   layer (innermost first), trailer when two or more layers carry a stack (Proofs/ReportLines.v) *)
Theorem C15_message_exact : forall e,
  rp_message (build_report e) =
  report_pre e ++ report_verbose e ++ comp_header ++
  join [nl] (comp_lines 0 (rev (visit_all e))) ++ report_trailer e.
Proof. exact report_message_exact. Qed.
Print Assumptions C15_message_exact.

Theorem C15_one_line_per_layer : forall e,
  List.length (comp_lines 0 (rev (visit_all e))) = List.length (visit_all e) /\
  ((forall l, In l (visit_all e) -> no_nl (short_type l) = true) ->
   split_on nl (composition_section e) =
   comp_lines 0 (rev (visit_all e)) ++
   (if (2 <=? stack_count (visit_all e))%nat then [check_line] else [])).
Proof. intro e. split; [apply composition_line_count | apply composition_lines]. Qed.
Print Assumptions C15_one_line_per_layer.

(* a line has a newline exactly when the layer's type name has one (only a type name received
   from the wire can: witness one_line_per_layer_needs_type_names in ReportLines.v) *)
Theorem C15_line_no_newline : forall k l, no_nl (comp_line k l) = no_nl (short_type l).
Proof. exact comp_line_no_nl. Qed.
Print Assumptions C15_line_no_newline.

Example C15_example :
  let st := [mkframe 1 (lit "main.f") (lit "/a/b.go") 12] in
  let e := Wrap 102%positive (WStack st) (Wrap 101%positive (WHint (lit "h")) (Leaf 100%positive (LErrString (lit "x")))) in
  List.length (rp_exceptions (build_report e)) = 1%nat /\
  List.length (visit_all e) = 3%nat /\
  List.length (rp_exceptions (build_report (Leaf 100%positive (LErrString (lit "x"))))) = 1%nat.
Proof. vm_compute. repeat split. Qed.
