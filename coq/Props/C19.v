(* C19 -- Hints and details are aggregated in order, hints de-duplicated.
   Statements only; proofs are in Proofs/C19.v. *)
From Errv Require Import Base.Str Model.Err Model.Access Spec.Aggregate Proofs.C19.

(* GetAllHints = every layer's hint, innermost layer first, empty ones dropped,
   each distinct text once (first occurrence wins); the standard hints of
   assertion / unimplemented / issue-link layers are what [hint_of] gives. *)
Theorem C19_hints : forall e, get_all_hints e = spec_hints e.
Proof. exact get_all_hints_spec. Qed.
Print Assumptions C19_hints.

(* GetAllDetails = every non-empty detail, innermost first, no de-duplication *)
Theorem C19_details : forall e, get_all_details e = spec_details e.
Proof. exact get_all_details_spec. Qed.
Print Assumptions C19_details.

(* FlattenHints / FlattenDetails: joined by a line containing only "--" *)
Theorem C19_flatten : forall e,
  flatten_hints e = join ([nl] ++ lit "--" ++ [nl]) (spec_hints e) /\
  flatten_details e = join ([nl] ++ lit "--" ++ [nl]) (spec_details e).
Proof.
  intro e. unfold flatten_hints, flatten_details.
  rewrite get_all_hints_spec, get_all_details_spec. split; reflexivity.
Qed.
Print Assumptions C19_flatten.

(* GetAllIssueLinks lists outermost first: one entry per link-bearing layer of the chain *)
Theorem C19_links : forall e,
  get_all_issue_links e =
  flat_map (fun c => match issue_link_of c with Some l => [l] | None => [] end) (chain e).
Proof. reflexivity. Qed.
Print Assumptions C19_links.

(* GetTelemetryKeys is the set union of the keys of all layers *)
Theorem C19_keys : forall e k,
  NoDup (get_telemetry_keys e) /\
  (In k (get_telemetry_keys e) <->
   exists i ks c, In (Wrap i (WTelemetry ks) c) (chain e) /\ In k ks).
Proof.
  intros e k. split; [apply telemetry_keys_nodup|].
  rewrite telemetry_keys_set. apply telemetry_keys_raw_spec.
Qed.
Print Assumptions C19_keys.

(* non-vacuity: a chain with a repeated hint, an empty hint and an assertion hint *)
Example C19_example :
  let leaf := Leaf 100%positive (LErrString (lit "x")) in
  let e := Wrap 105%positive (WHint (lit "a"))
            (Wrap 104%positive WAssert
             (Wrap 103%positive (WHint [])
              (Wrap 102%positive (WHint (lit "b"))
               (Wrap 101%positive (WHint (lit "a")) leaf)))) in
  get_all_hints e = [lit "a"; lit "b"; assertion_hint].
Proof. vm_compute. reflexivity. Qed.
