(* S-expressions: the only data format crossing between the Go harness, the
   extracted runner and the model.  Parsing of recipes/cases from [sexp] and
   printing of observables to [sexp] is written in Gallina so that the OCaml
   driver only has to read and print this one generic type. *)
From Errv Require Import Base.Str.

Inductive sexp :=
| A (s : str)
| L (l : list sexp).

Definition sym (s : string) : sexp := A (lit s).
Definition sN (n : N) : sexp := A (dec_of_N n).
Definition sZ (z : Z) : sexp := A (dec_of_Z z).
Definition sB (b : bool) : sexp := if b then sym "true" else sym "false".
Definition sS (s : str) : sexp := L [sym "s"; A s].   (* tagged string, so that "" stays visible *)
Definition sStrs (l : list str) : sexp := L (List.map A l).
Definition sOpt {X} (f : X -> sexp) (o : option X) : sexp :=
  match o with Some x => L [sym "some"; f x] | None => sym "none" end.
Definition tag (t : string) (l : list sexp) : sexp := L (sym t :: l).

Definition is_sym (t : string) (x : sexp) : bool :=
  match x with A s => str_eqb s (lit t) | _ => false end.

Definition get_atom (x : sexp) : option str :=
  match x with A s => Some s | _ => None end.

Definition get_N (x : sexp) : option N :=
  match x with A s => parse_N s | _ => None end.

Definition get_Z (x : sexp) : option Z :=
  match x with A s => parse_Z s | _ => None end.

Definition get_bool (x : sexp) : option bool :=
  match x with
  | A s => if str_eqb s (lit "true") then Some true
           else if str_eqb s (lit "false") then Some false else None
  | _ => None
  end.

Fixpoint get_atoms (l : list sexp) : option (list str) :=
  match l with
  | [] => Some []
  | A s :: r => match get_atoms r with Some rs => Some (s :: rs) | None => None end
  | _ => None
  end.

Definition get_strs (x : sexp) : option (list str) :=
  match x with L l => get_atoms l | _ => None end.

(* option monad notation used by the parsers *)
Definition obind {X Y} (o : option X) (f : X -> option Y) : option Y :=
  match o with Some x => f x | None => None end.
Notation "'do' x <- o ; k" := (obind o (fun x => k)) (at level 200, x pattern, o at level 100, k at level 200).

Fixpoint omap {X Y} (f : X -> option Y) (l : list X) : option (list Y) :=
  match l with
  | [] => Some []
  | x :: r => do y <- f x; do ys <- omap f r; Some (y :: ys)
  end.
