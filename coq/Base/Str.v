(* Strings of the model: a Go string is a byte sequence.  Bytes are [N]
   (values below 256 for every string that comes from Go; the functions below
   treat larger numbers as "some other byte", so theorems quantified over
   [list N] cover a superset of the Go strings). *)
From Coq Require Export List NArith ZArith Bool Ascii String.
Export ListNotations.
Open Scope N_scope.

Definition str := list N.

Definition lit (s : string) : str :=
  List.map N_of_ascii (list_ascii_of_string s).

Definition nl : N := 10.
Definition sp : N := 32.
Definition colon : N := 58.

Fixpoint str_eqb (a b : str) : bool :=
  match a, b with
  | [], [] => true
  | x :: a', y :: b' => N.eqb x y && str_eqb a' b'
  | _, _ => false
  end.

Definition is_empty (s : str) : bool := match s with [] => true | _ => false end.

(* [a] is a prefix of [b]: returns the rest *)
Fixpoint drop_prefix (a b : str) : option str :=
  match a, b with
  | [], _ => Some b
  | x :: a', y :: b' => if N.eqb x y then drop_prefix a' b' else None
  | _ :: _, [] => None
  end.

(* linear-time reversal (List.rev is quadratic once extracted); equal to List.rev *)
Definition frev {A : Type} (l : list A) : list A := rev_append l [].
Lemma frev_eq {A : Type} (l : list A) : frev l = rev l.
Proof. unfold frev. symmetry. apply rev_alt. Qed.

Definition has_prefix (a b : str) : bool :=
  match drop_prefix a b with Some _ => true | None => false end.

(* Go: strings.HasSuffix(s, suf) and s[:len(s)-len(suf)] *)
Definition drop_suffix (suf s : str) : option str :=
  match drop_prefix (frev suf) (frev s) with
  | Some r => Some (frev r)
  | None => None
  end.

Definition has_suffix (suf s : str) : bool :=
  match drop_suffix suf s with Some _ => true | None => false end.

Fixpoint join (sep : str) (l : list str) : str :=
  match l with
  | [] => []
  | [x] => x
  | x :: rest => x ++ sep ++ join sep rest
  end.

Fixpoint mem_str (s : str) (l : list str) : bool :=
  match l with
  | [] => false
  | x :: r => str_eqb s x || mem_str s r
  end.

Fixpoint contains_byte (c : N) (s : str) : bool :=
  match s with
  | [] => false
  | x :: r => N.eqb x c || contains_byte c r
  end.

(* Go: strings.IndexByte(s, c) >= 0 ? s[:idx] : s *)
Fixpoint upto_byte (c : N) (s : str) : str :=
  match s with
  | [] => []
  | x :: r => if N.eqb x c then [] else x :: upto_byte c r
  end.

(* strings.Split(s, "\n"): always at least one element *)
Fixpoint split_on (c : N) (s : str) : list str :=
  match s with
  | [] => [[]]
  | x :: r =>
    if N.eqb x c then [] :: split_on c r
    else match split_on c r with
         | [] => [[x]]            (* unreachable *)
         | l :: ls => (x :: l) :: ls
         end
  end.

(* infix search (used by oracles, never by the modelled code) *)
Fixpoint is_infix (a s : str) : bool :=
  has_prefix a s || match s with [] => false | _ :: r => is_infix a r end.

(* decimal printing of a natural number (Go %d for non-negative values) *)
Fixpoint dec_digits (fuel : nat) (n : N) (acc : str) : str :=
  match fuel with
  | O => acc
  | S f =>
    let d := (48 + n mod 10) in
    let q := n / 10 in
    if N.eqb q 0 then d :: acc else dec_digits f q (d :: acc)
  end.

Definition dec_of_N (n : N) : str := dec_digits (S (N.to_nat (N.log2 n))) n [].

Definition dec_of_Z (z : Z) : str :=
  match z with
  | Z0 => [48]
  | Zpos p => dec_of_N (Npos p)
  | Zneg p => 45 :: dec_of_N (Npos p)
  end.

(* parse a decimal (optionally negative) number; None if malformed or empty *)
Fixpoint parse_dec_aux (s : str) (acc : N) : option N :=
  match s with
  | [] => Some acc
  | c :: r => if (48 <=? c) && (c <=? 57) then parse_dec_aux r (acc * 10 + (c - 48)) else None
  end.

Definition parse_N (s : str) : option N :=
  match s with [] => None | _ => parse_dec_aux s 0 end.

Definition parse_Z (s : str) : option Z :=
  match s with
  | 45 :: r => match parse_N r with Some n => Some (- Z.of_N n)%Z | None => None end
  | _ => match parse_N s with Some n => Some (Z.of_N n) | None => None end
  end.

Fixpoint list_eqb {A} (eqb : A -> A -> bool) (a b : list A) : bool :=
  match a, b with
  | [], [] => true
  | x :: a', y :: b' => eqb x y && list_eqb eqb a' b'
  | _, _ => false
  end.

(* trailing/leading helpers *)
Definition last_byte (s : str) : option N :=
  match frev s with [] => None | x :: _ => Some x end.

Definition first_byte (s : str) : option N :=
  match s with [] => None | x :: _ => Some x end.
