(* Declarative specification of the aggregation accessors (C19): what the
   documentation promises, written without accumulators or "seen" sets. *)
From Errv Require Import Base.Str Model.Err Model.Access.

Definition nonempty (s : str) : bool := match s with [] => false | _ => true end.

(* each distinct text once, first occurrence wins *)
Fixpoint dedup_first (l : list str) : list str :=
  match l with
  | [] => []
  | x :: r => x :: filter (fun y => negb (str_eqb x y)) (dedup_first r)
  end.

(* innermost layer first *)
Definition layers_inner_first (e : err) : list err := rev (chain e).

Definition hint_text (c : err) : str := match hint_of c with Some h => h | None => [] end.
Definition detail_text (c : err) : str := match detail_of c with Some d => d | None => [] end.

Definition spec_hints (e : err) : list str :=
  dedup_first (filter nonempty (List.map hint_text (layers_inner_first e))).

Definition spec_details (e : err) : list str :=
  filter nonempty (List.map detail_text (layers_inner_first e)).
