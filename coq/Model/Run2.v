(* Further case kinds for the runner: wire-level cases (C05: a possibly faulty
   EncodedError given directly).  Definitions only. *)
From Errv Require Import Base.Str Base.Sexp Redact.Markers Redact.Buffer
     Model.Err Model.Sem Model.Details Model.Marks Model.Codec Model.Access Model.Build Model.Parse
     Model.Report Model.Std Model.Run Model.Migrate.

Definition parse_tmark (x : sexp) : option tmark :=
  match x with L [A f; A e] => Some (mktm f e) | _ => None end.

Definition parse_kv (x : sexp) : option (str * str) :=
  match x with L [A k; A v] => Some (k, v) | _ => None end.

(* inverse of Run.sexp_enc *)
Fixpoint parse_enc (x : sexp) {struct x} : option enc :=
  let plist :=
    fix plist (l : list sexp) : option (list enc) :=
      match l with
      | [] => Some []
      | y :: r => do a <- parse_enc y; do b <- plist r; Some (a :: b)
      end in
  let ppayload := fun (y : sexp) =>
    match y with
    | A s => if str_eqb s (lit "none") then Some None else None
    | L (A k :: args) =>
      if opis k "string" then match args with [A s] => Some (Some (PlString s)) | _ => None end
      else if opis k "strings" then do l <- get_atoms args; Some (Some (PlStrings l))
      else if opis k "tags" then do l <- omap parse_kv args; Some (Some (PlTags l))
      else if opis k "mark" then
        match args with
        | A m :: tys => do l <- omap parse_tmark tys; Some (Some (PlMark m l))
        | _ => None
        end
      else if opis k "errno" then
        match args with
        | [n; A arch; b1; b2; b3; b4; b5] =>
          do z <- get_Z n; do p1 <- get_bool b1; do p2 <- get_bool b2; do p3 <- get_bool b3;
          do p4 <- get_bool b4; do p5 <- get_bool b5;
          Some (Some (PlErrno (mkerrno z arch p1 p2 p3 p4 p5)))
        | _ => None
        end
      else if opis k "enc" then match args with [e] => do e' <- parse_enc e; Some (Some (PlEnc e')) | _ => None end
      else if opis k "http" then match args with [n] => do c <- get_N n; Some (Some (PlHTTP c)) | _ => None end
      else if opis k "grpc" then match args with [n] => do c <- get_N n; Some (Some (PlGrpc c)) | _ => None end
      else if opis k "status" then
        match args with [n; A m] => do c <- get_N n; Some (Some (PlStatus c m)) | _ => None end
      else if opis k "testerror" then Some (Some PlTestError)
      else if opis k "other" then match args with [A u; A r] => Some (Some (PlOther u r)) | _ => None end
      else None
    | _ => None
    end in
  let pdetails := fun (y : sexp) =>
    match y with
    | L [A d; A o; A f; A e; L rep; pl] =>
      if opis d "d" then do r <- get_atoms rep; do p <- ppayload pl; Some (mkdet o f e r p) else None
    | _ => None
    end in
  match x with
  | L [A k; A msg; d; L cs] =>
    if opis k "leaf" then do d' <- pdetails d; do cs' <- plist cs; Some (ELeaf msg d' cs') else None
  | L [A k; c; A msg; d; mt] =>
    if opis k "wrap" then
      do c' <- parse_enc c; do d' <- pdetails d; do m <- get_N mt; Some (EWrap c' msg d' m)
    else None
  | _ => None
  end.

(* (deccase id ENC (obs...)): DecodeError of the message at a process that has
   all the decoders, then the observations on the result *)
(* (migcase id ((prev new) ...)): RegisterTypeMigration calls from the empty registry *)
Definition parse_reg (x : sexp) : option (key * key) :=
  match x with L [A p; A n] => Some (p, n) | _ => None end.

Fixpoint insert_pair (kv : str * str) (l : list (str * str)) : list (str * str) :=
  match l with
  | [] => [kv]
  | x :: r => if str_leb (fst kv) (fst x) then kv :: l else x :: insert_pair kv r
  end.

Definition run_migcase (id : str) (regs : list sexp) : sexp :=
  match omap parse_reg regs with
  | Some rs =>
    match register_all rs [] with
    | Some r =>
      L [sym "result"; A id;
         L [sym "ok"; L (List.map (fun kv => L [A (fst kv); A (snd kv)]) (fold_right insert_pair [] r))]]
    | None => L [sym "result"; A id; L [sym "panic"]]
    end
  | None => L [sym "result"; A id; bad "regs"]
  end.

Definition run_case2 (x : sexp) : sexp :=
  match x with
  | L [A c; A id; L regs] =>
    if str_eqb c (lit "migcase") then run_migcase id regs else run_case x
  | L [A c; A id; encx; L obs] =>
    if str_eqb c (lit "deccase") then
      match parse_enc encx with
      | Some m =>
        let '(e, n1) := decode all_knowing m first_fresh_oid in
        L (sym "result" :: A id ::
             List.map (eval_obs [] [] n1 (Some e) (marks_if (needs_marks obs) e)) obs)
      | None => L [sym "result"; A id; bad "enc"]
      end
    else run_case x
  | _ => run_case x
  end.
