(* Attribution of captured stacks and package domains (C16): the forwarding
   structure of the stack-capturing functions, as regenerated from the source by
   translators/depthtab (Gen/DepthTable.v), and its interpretation.
   Definitions only. *)
From Coq Require Import String Ascii ZArith List Bool.
Import ListNotations.
Open Scope Z_scope.

Inductive callee :=
| CCallers                 (* runtime.Callers(skip, pcs) *)
| CCaller                  (* runtime.Caller(skip) *)
| CFn (name : string)      (* a function of the repository *)
| CUnknown (why : string). (* something the translator did not recognise *)

(* a forwarding call: callee, and the depth argument a*depth + b in terms of the
   calling function's own depth parameter (a = 0 when it has none) *)
Definition edge := (callee * Z * Z)%type.

Record fn_entry := mkfn {
  fn_name : string; fn_has_depth : bool; fn_exported : bool; fn_edges : list edge }.

Definition table := list fn_entry.

Fixpoint lookup (t : table) (n : string) : option fn_entry :=
  match t with
  | [] => None
  | f :: r => if String.eqb (fn_name f) n then Some f else lookup r n
  end.

(* ---- concrete semantics: a call pushes a frame; runtime.Callers(skip) returns
   the stack from the skip-th frame on, runtime.Callers itself being frame 0;
   runtime.Caller(skip) describes the skip-th frame, its caller being frame 0 ---- *)
Definition frame := string.

Definition drop (k : Z) (l : list frame) : option (list frame) :=
  if k <? 0 then None else if Z.of_nat (List.length l) <? k then None else Some (skipn (Z.to_nat k) l).

(* what the calls made by function [f] (whose frame is the head of [stk]) capture
   when [f] runs with depth argument [d]: one entry per primitive reached; None =
   the translator met something it does not understand, the fuel ran out, or a
   negative skip *)
Fixpoint exec (t : table) (fuel : nat) (f : fn_entry) (d : Z) (stk : list frame) : list (option (list frame)) :=
  match fuel with
  | O => [None]
  | S n =>
    flat_map (fun e : edge =>
      let '(c, a, b) := e in
      let arg := a * d + b in
      match c with
      | CCallers => [drop arg ("runtime.Callers"%string :: stk)]
      | CCaller => [drop arg stk]
      | CFn g =>
        match lookup t g with
        | Some fg => exec t n fg arg (fn_name fg :: stk)
        | None => [None]
        end
      | CUnknown _ => [None]
      end) (fn_edges f)
  end.

(* ---- static summary: for every path from f to a primitive, the captured stack
   starts (a*d + b) frames above f's CALLER ---- *)
Fixpoint offsets (t : table) (fuel : nat) (f : fn_entry) : list (option (Z * Z)) :=
  match fuel with
  | O => [None]
  | S n =>
    flat_map (fun e : edge =>
      let '(c, a1, b1) := e in
      match c with
      | CCallers => [Some (a1, b1 - 2)]          (* frames 0,1 are runtime.Callers and f *)
      | CCaller => [Some (a1, b1 - 1)]           (* frame 0 is f *)
      | CFn g =>
        match lookup t g with
        | Some fg =>
          List.map (fun o => match o with
                             | Some (a2, b2) => Some (a2 * a1, a2 * b1 + b2 - 1)
                             | None => None
                             end) (offsets t n fg)
        | None => [None]
        end
      | CUnknown _ => [None]
      end) (fn_edges f)
  end.

Definition fuel_of (t : table) : nat := S (List.length t).

(* an entry point attributes correctly when every path captures exactly the
   frame [d] levels above its caller (0 levels for the variants without depth) *)
Definition entry_ok (t : table) (f : fn_entry) : bool :=
  match offsets t (fuel_of t) f with
  | [] => false
  | l => forallb (fun o => match o with
                           | Some (a, b) => (a =? (if fn_has_depth f then 1 else 0)) && (b =? 0)
                           | None => false
                           end) l
  end.

(* the constructors and domain functions the property names *)
Definition has_prefix (p s : string) : bool := String.prefix p s.
Definition base_name (n : string) : string :=
  (fix go (s acc : string) : string :=
     match s with
     | EmptyString => acc
     | String c r => if Ascii.eqb c "."%char then go r EmptyString else go r (acc ++ String c EmptyString)%string
     end) n EmptyString.
Definition pkg_name (n : string) : string :=
  (fix go (s acc cur : string) : string :=
     match s with
     | EmptyString => acc
     | String c r => if Ascii.eqb c "."%char then go r (acc ++ cur)%string (String c EmptyString)
                     else go r acc (cur ++ String c EmptyString)%string
     end) n EmptyString EmptyString.

Definition constructor_names : list string :=
  ["New"; "Errorf"; "Wrap"; "WithStack"; "AssertionFailed"; "HandleAsAssertionFailure"; "Join";
   "PackageDomain"; "Handled"]%string.
Definition constructor_pkgs : list string := [""; "errutil"; "withstack"; "domains"]%string.

Definition is_entry (f : fn_entry) : bool :=
  fn_exported f &&
  existsb (String.eqb (pkg_name (fn_name f))) constructor_pkgs &&
  existsb (fun p => has_prefix p (base_name (fn_name f))) constructor_names.

Definition entries (t : table) : list fn_entry := filter is_entry t.

Definition table_ok (t : table) : bool := forallb (entry_ok t) (entries t).
