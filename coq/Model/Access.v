(* Public accessors: hints, details, issue links, telemetry keys, domain,
   context tags, flags, codes, oserror predicates.  Definitions only.
   The recursive Go functions are transcribed with their accumulators. *)
From Errv Require Import Base.Str Redact.Markers Model.Err Model.Sem Model.Marks.

Definition issue_referral : str :=
  [nl; nl] ++ lit "Please check the public issue tracker to check whether this problem is" ++ [nl] ++
  lit "already tracked. If you cannot find it there, please report the error" ++ [nl] ++
  lit "with details by creating a new issue." ++ [nl; nl] ++
  lit "If you would rather not post publicly, please contact us directly" ++ [nl] ++
  lit "using the support form." ++ [nl; nl] ++
  lit "We appreciate your feedback." ++ [nl].

Definition assertion_hint : str := lit "You have encountered an unexpected error." ++ issue_referral.
Definition unimplemented_hint : str :=
  lit "You have attempted to use a feature that is not yet implemented.".

(* issuelink.maybeAppendReferral on a buffer holding [buf] *)
Definition append_referral (buf : str) (url : str) : str :=
  match url with
  | [] => buf ++ issue_referral
  | _ => buf ++ (match buf with [] => [] | _ => [nl] end) ++ lit "See: " ++ url
  end.

(* ErrorHint() of a node, None when the type is not an ErrorHinter *)
Definition hint_of (e : err) : option str :=
  match e with
  | Wrap _ (WHint h) _ => Some h
  | Wrap _ (WIssueLink url _) _ => Some (append_referral [] url)
  | Wrap _ WAssert _ => Some assertion_hint
  | Leaf _ (LUnimpl _ url _) => Some (append_referral unimplemented_hint url)
  | Leaf _ (LUser ULHint _ _ xs) => Some (nth 0 xs [])
  | _ => None
  end.

Definition detail_of (e : err) : option str :=
  match e with
  | Wrap _ (WDetail d) _ => Some d
  | Leaf _ (LUser ULHint _ _ xs) => Some (nth 1 xs [])
  | _ => None
  end.

(* getAllHintsInternal(err, hints, seen): the map [seen] is a list here *)
Fixpoint all_hints_internal (e : err) (acc : list str * list str) : list str * list str :=
  let acc1 := match e with
              | Wrap _ _ c | Second _ c _ | OWrap _ _ _ _ c => all_hints_internal c acc
              | _ => acc
              end in
  let hint := match hint_of e with Some h => h | None => [] end in
  match hint with
  | [] => acc1
  | _ => let '(hints, seen) := acc1 in
         if mem_str hint seen then acc1 else (hints ++ [hint], hint :: seen)
  end.

Definition get_all_hints (e : err) : list str := fst (all_hints_internal e ([], [])).

Fixpoint all_details_internal (e : err) (acc : list str) : list str :=
  let acc1 := match e with
              | Wrap _ _ c | Second _ c _ | OWrap _ _ _ _ c => all_details_internal c acc
              | _ => acc
              end in
  match detail_of e with
  | Some d => match d with [] => acc1 | _ => acc1 ++ [d] end
  | None => acc1
  end.

Definition get_all_details (e : err) : list str := all_details_internal e [].

Definition flatten_sep : str := [nl] ++ lit "--" ++ [nl].
Definition flatten_hints (e : err) : str := join flatten_sep (get_all_hints e).
Definition flatten_details (e : err) : str := join flatten_sep (get_all_details e).

Definition issue_link_of (e : err) : option (str * str) :=
  match e with
  | Wrap _ (WIssueLink url det) _ => Some (url, det)
  | Leaf _ (LUnimpl _ url det) => Some (url, det)
  | _ => None
  end.

(* GetAllIssueLinks: outermost first *)
Definition get_all_issue_links (e : err) : list (str * str) :=
  flat_map (fun c => match issue_link_of c with Some l => [l] | None => [] end) (chain e).

(* GetTelemetryKeys: a set; compared as a sorted duplicate-free list *)
Definition telemetry_keys_raw (e : err) : list str :=
  flat_map (fun c => match c with Wrap _ (WTelemetry ks) _ => ks | _ => [] end) (chain e).

Fixpoint dedup (l : list str) (seen : list str) : list str :=
  match l with
  | [] => []
  | x :: r => if mem_str x seen then dedup r seen else x :: dedup r (x :: seen)
  end.

Definition get_telemetry_keys (e : err) : list str := dedup (telemetry_keys_raw e) [].

(* GetDomain *)
Definition no_domain : str := lit "error domain: <none>".
Definition get_domain (e : err) : str :=
  match if_ (fun c => match c with Wrap _ (WDomain d) _ => Some d | _ => None end) e with
  | Some d => d
  | None => no_domain
  end.

(* GetContextTags: outermost first; every buffer as (key, ValueStr) pairs *)
Definition get_context_tags (e : err) : list (list (str * str)) :=
  flat_map (fun c => match c with
                     | Wrap _ (WContext [] _) _ => []     (* a layer with only redacted tags has no buffer *)
                     | Wrap _ (WContext tags _) _ =>
                       [List.map (fun kv => (fst kv, match snd kv with
                                                     | TVNil => [] | TVStr s => s
                                                     | TVInt z => dec_of_Z z | TVSafe s => s end)) tags]
                     | _ => []
                     end) (chain e).

Definition has_assertion_failure (e : err) : bool :=
  existsb (fun c => match c with Wrap _ WAssert _ => true | _ => false end) (chain e).
Definition is_assertion_failure (e : err) : bool :=
  match e with Wrap _ WAssert _ => true | _ => false end.
Definition has_issue_link (e : err) : bool :=
  existsb (fun c => match c with Wrap _ (WIssueLink _ _) _ => true | _ => false end) (chain e).
Definition has_unimplemented (e : err) : bool :=
  match unwrap_all e with Leaf _ (LUnimpl _ _ _) => true | _ => false end.

Definition get_http_code (e : err) (dflt : Z) : Z :=
  match if_ (fun c => match c with Wrap _ (WHTTP code) _ => Some code | _ => None end) e with
  | Some c => c | None => dflt
  end.
Definition get_grpc_code (e : err) : N :=
  match if_ (fun c => match c with Wrap _ (WGrpc code) _ => Some code | _ => None end) e with
  | Some c => c | None => 2
  end.

(* ---- oserror ---- *)
Definition sent_permission := Leaf oid_permission (LErrString (lit "permission denied")).
Definition sent_exist := Leaf oid_exist (LErrString (lit "file already exists")).
Definition sent_notexist := Leaf oid_notexist (LErrString (lit "file does not exist")).

(* os.underlyingError: strips one *PathError / *LinkError / *SyscallError *)
Definition underlying (e : err) : err :=
  match e with
  | Wrap _ (WPathError _ _) c | Wrap _ (WLinkError _ _ _) c | Wrap _ (WSyscallError _) c => c
  | _ => e
  end.

(* os.underlyingErrorIs(err, target): err == target, or a syscall.Errno that says so *)
Definition underlying_is (e : err) (which : N) : bool :=
  let u := underlying e in
  match u with
  | Leaf i (LErrString _) =>
    Pos.eqb i (match which with 0 => oid_permission | 1 => oid_exist | _ => oid_notexist end)
  | Leaf _ (LErrno n) =>
    match which with 0 => errno_is_perm n | 1 => errno_is_exist n | _ => errno_is_notexist n end
  | _ => false
  end.

Definition opaque_errno_flag (e : err) (which : N) : bool :=
  match as_ e (ATType (lib "errbase/*errbase.OpaqueErrno")) with
  | Some (Leaf _ (LOpaqueErrno _ p)) =>
    match which with 0 => en_perm p | 1 => en_exist p | _ => en_notexist p end
  | _ => false
  end.

Definition os_is (which : N) (e : err) : bool :=
  let s := match which with 0 => sent_permission | 1 => sent_exist | _ => sent_notexist end in
  is_ e s || underlying_is (unwrap_all e) which || opaque_errno_flag e which.

Definition is_permission := os_is 0.
Definition is_exist := os_is 1.
Definition is_notexist := os_is 2.

(* the Timeout() method, false when the type has none *)
Fixpoint timeout_method (e : err) : bool :=
  match e with
  | Leaf _ LDeadline => true
  | Leaf _ (LErrno n) => errno_timeout n
  | Leaf _ (LOpaqueErrno _ p) => en_timeout p
  | Wrap _ (WPathError _ _) c | Wrap _ (WSyscallError _) c | Wrap _ (WOpError _ _ _ _) c => timeout_method c
  | _ => false
  end.

(* os.IsTimeout(err): underlyingError(err).(timeout).Timeout() *)
Definition node_timeout (e : err) : bool := timeout_method (underlying e).

Definition is_timeout (e : err) : bool := existsb node_timeout (chain e).
