(* The formatting engine (errbase/format_error.go), Error() of every type and
   the sentinel test of the special-case printer, as ONE structural recursion
   over [err]: each node yields a record [nsem] built from the records of its
   sub-terms (hidden errors included).  Executable definitions only.

   Why one recursion: withPrefix.Error() prints its cause with fmt's %v (the
   engine), joinError.Error() is the engine's output stripped of markers, the
   engine calls Error() for foreign types (formatSimple/extractPrefix) and
   markers.IsAny for the special-case printer, and IsAny compares Error()
   texts.  All of these only ever recurse into sub-terms. *)
From Errv Require Import Base.Str Redact.Markers Redact.Buffer Model.Err.

(* ---------- small tables ---------- *)
Definition detail_sep : str := nl :: lit "  | ".
Definition detail_sep_m1 : str := nl :: lit "  |".
Definition colon_sp : str := lit ": ".

Definition grpc_code_name (c : N) : str :=
  match c with
  | 0 => lit "OK" | 1 => lit "Canceled" | 2 => lit "Unknown" | 3 => lit "InvalidArgument"
  | 4 => lit "DeadlineExceeded" | 5 => lit "NotFound" | 6 => lit "AlreadyExists"
  | 7 => lit "PermissionDenied" | 8 => lit "ResourceExhausted" | 9 => lit "FailedPrecondition"
  | 10 => lit "Aborted" | 11 => lit "OutOfRange" | 12 => lit "Unimplemented"
  | 13 => lit "Internal" | 14 => lit "Unavailable" | 15 => lit "DataLoss"
  | 16 => lit "Unauthenticated"
  | _ => lit "Code(" ++ dec_of_N c ++ lit ")"
  end.

(* linux errno table for the values the harness generates *)
Definition errno_text (n : Z) : str :=
  match n with
  | 1 => lit "operation not permitted"
  | 2 => lit "no such file or directory"
  | 4 => lit "interrupted system call"
  | 11 => lit "resource temporarily unavailable"
  | 13 => lit "permission denied"
  | 17 => lit "file exists"
  | 22 => lit "invalid argument"
  | 110 => lit "connection timed out"
  | _ => lit "errno " ++ dec_of_Z n
  end%Z.

(* syscall.Errno.Is / Timeout / Temporary on linux *)
Definition errno_is_perm (n : Z) : bool := (n =? 13)%Z || (n =? 1)%Z.
Definition errno_is_exist (n : Z) : bool := (n =? 17)%Z || (n =? 39)%Z.
Definition errno_is_notexist (n : Z) : bool := (n =? 2)%Z.
Definition errno_timeout (n : Z) : bool := (n =? 11)%Z || (n =? 110)%Z.
Definition errno_temporary (n : Z) : bool :=
  (n =? 4)%Z || (n =? 24)%Z || errno_timeout n.

Definition payload_url (p : payload) : str :=
  lit "type.googleapis.com/" ++
  match p with
  | PlString _ => lit "cockroach.errorspb.StringPayload"
  | PlStrings _ => lit "cockroach.errorspb.StringsPayload"
  | PlTags _ => lit "cockroach.errorspb.TagsPayload"
  | PlMark _ _ => lit "cockroach.errorspb.MarkPayload"
  | PlErrno _ => lit "cockroach.errorspb.ErrnoPayload"
  | PlEnc _ => lit "cockroach.errorspb.EncodedError"
  | PlHTTP _ => lit "cockroach.errors.exthttp.EncodedHTTPCode"
  | PlGrpc _ => lit "cockroach.errors.extgrpc.EncodedGrpcCode"
  | PlStatus _ _ => lit "google.rpc.Status"
  | PlTestError => lit "cockroach.errorspb.TestError"
  | PlOther _ _ => []
  end.

Definition any_url (p : payload) : str :=
  match p with PlOther u _ => u | _ => payload_url p end.

(* strconv.Quote for the strings the generator puts into Mark references:
   ASCII is exact, bytes >= 0x80 are passed through (valid printable UTF-8). *)
Definition hex_digit (n : N) : N := if n <? 10 then 48 + n else 87 + n.
Definition quote_byte (b : N) : str :=
  if b =? 34 then [92; 34]
  else if b =? 92 then [92; 92]
  else if b =? 10 then [92; 110]
  else if b =? 13 then [92; 114]
  else if b =? 9 then [92; 116]
  else if b =? 7 then [92; 97]
  else if b =? 8 then [92; 98]
  else if b =? 12 then [92; 102]
  else if b =? 11 then [92; 118]
  else if (b <? 32) || (b =? 127) then [92; 120; hex_digit (b / 16); hex_digit (b mod 16)]
  else [b].
Definition hex_esc (b : N) : str := [92; 120; hex_digit (b / 16); hex_digit (b mod 16)].

(* bytes >= 0x80: a valid UTF-8 sequence is kept (the generator only uses
   printable runes), a byte that does not start one is escaped as \xNN *)
Fixpoint quote_bytes (s : str) (skip : nat) : str :=
  match s with
  | [] => []
  | b :: r =>
    match skip with
    | S k => b :: quote_bytes r k      (* continuation byte of a sequence already accepted *)
    | O =>
      if b <? 128 then quote_byte b ++ quote_bytes r 0
      else
        match r with
        | c1 :: r1 =>
          if valid2 b c1 then b :: quote_bytes r 1
          else match r1 with
               | c2 :: r2 =>
                 if valid3 b c1 c2 then b :: quote_bytes r 2
                 else match r2 with
                      | c3 :: _ => if valid4 b c1 c2 c3 then b :: quote_bytes r 3
                                   else hex_esc b ++ quote_bytes r 0
                      | [] => hex_esc b ++ quote_bytes r 0
                      end
               | [] => hex_esc b ++ quote_bytes r 0
               end
        | [] => hex_esc b
        end
    end
  end.

Definition go_quote (s : str) : str := 34 :: quote_bytes s 0 ++ [34].

(* ---------- engine state ---------- *)
Record fentry := mkentry {
  fe_ty : str;               (* %T of entry.err *)
  fe_red : bool;             (* redactable *)
  fe_head : str;
  fe_details : str;
  fe_elide : bool;           (* elideShort *)
  fe_stack : option stack;   (* stackTrace (nil / non-nil) *)
  fe_elided : bool;          (* elidedStackTrace *)
  fe_depth : nat }.

Record fstate := mkst {
  fs_redout : bool;          (* redactableOutput *)
  fs_plus : bool;            (* Flag('+') of the fmt.State the engine was called with *)
  fs_entries : list fentry;  (* NEWEST FIRST (Go appends at the end) *)
  fs_buf : str;
  fs_headbuf : str;
  fs_last : stack;           (* lastStack *)
  fs_hasDetail : bool;
  fs_wantDetail : bool;
  fs_notEmpty : bool;
  fs_needNewline : nat }.

Definition st_init (red plus : bool) : fstate :=
  mkst red plus [] [] [] [] false false false 0.

Definition set_buf (st : fstate) (b : str) : fstate :=
  mkst (fs_redout st) (fs_plus st) (fs_entries st) b (fs_headbuf st) (fs_last st)
       (fs_hasDetail st) (fs_wantDetail st) (fs_notEmpty st) (fs_needNewline st).
Definition set_entries (st : fstate) (es : list fentry) : fstate :=
  mkst (fs_redout st) (fs_plus st) es (fs_buf st) (fs_headbuf st) (fs_last st)
       (fs_hasDetail st) (fs_wantDetail st) (fs_notEmpty st) (fs_needNewline st).
Definition set_last (st : fstate) (l : stack) : fstate :=
  mkst (fs_redout st) (fs_plus st) (fs_entries st) (fs_buf st) (fs_headbuf st) l
       (fs_hasDetail st) (fs_wantDetail st) (fs_notEmpty st) (fs_needNewline st).
Definition set_notEmpty (st : fstate) (b : bool) : fstate :=
  mkst (fs_redout st) (fs_plus st) (fs_entries st) (fs_buf st) (fs_headbuf st) (fs_last st)
       (fs_hasDetail st) (fs_wantDetail st) b (fs_needNewline st).
Definition set_needNewline (st : fstate) (n : nat) : fstate :=
  mkst (fs_redout st) (fs_plus st) (fs_entries st) (fs_buf st) (fs_headbuf st) (fs_last st)
       (fs_hasDetail st) (fs_wantDetail st) (fs_notEmpty st) n.

(* switchOver *)
Definition switch_over (st : fstate) : fstate :=
  if fs_hasDetail st then st else
  mkst (fs_redout st) (fs_plus st) (fs_entries st) [] (fs_buf st) (fs_last st)
       true (fs_wantDetail st) false (fs_needNewline st).

Fixpoint rep_str (n : nat) (s : str) : str :=
  match n with O => [] | S k => s ++ rep_str k s end.

(* state.Write: [chunk] holds, reversed, the bytes b[k:i] not yet copied *)
Fixpoint write_loop (b : str) (st : fstate) (chunk : str) : fstate :=
  match b with
  | [] => set_buf st (fs_buf st ++ rev chunk)
  | c :: r =>
    if c =? nl then
      let st1 := set_needNewline (set_buf st (fs_buf st ++ rev chunk)) (S (fs_needNewline st)) in
      let st2 := if fs_wantDetail st1 then switch_over st1 else st1 in
      write_loop r st2 []
    else
      let st1 :=
        if (negb (Nat.eqb (fs_needNewline st) 0)) && fs_notEmpty st then
          let fill := if fs_wantDetail st
                      then rep_str (fs_needNewline st - 1) detail_sep_m1 ++ detail_sep
                      else [nl] in
          set_needNewline (set_buf st (fs_buf st ++ fill)) 0
        else st in
      write_loop r (set_notEmpty st1 true) (c :: chunk)
  end.

Definition st_write (st : fstate) (b : str) : fstate :=
  match b with [] => st | _ => write_loop b st [] end.

(* state.detail *)
Definition st_detail (st : fstate) : fstate * bool :=
  if negb (fs_wantDetail st) then (st, false) else
  let st1 := if fs_notEmpty st then set_needNewline st 1 else st in
  (switch_over st1, true).

(* safePrinter.Print / Printf: one redact.Fprint[f] call = one Write *)
Definition sp_print (st : fstate) (ps : list piece) : fstate :=
  st_write st (sprint_pieces ps).

(* printer.Print of a string (withHint / withDetail) *)
Definition pl_print (st : fstate) (s : str) : fstate := st_write st s.

(* ---------- stack traces ---------- *)
Definition frame_eqb (a b : frame) : bool := fr_pc a =? fr_pc b.

Fixpoint common_suffix_steps (rn rp : stack) : nat :=
  match rn, rp with
  | a :: ((_ :: _) as rn'), b :: ((_ :: _) as rp') =>
    if frame_eqb a b then S (common_suffix_steps rn' rp') else 0%nat
  | _, _ => 0%nat
  end.

(* ElideSharedStackTraceSuffix *)
Definition elide_shared (prev new : stack) : stack * bool :=
  match prev, new with
  | [], _ => (new, false)
  | _, [] => (new, false)
  | _, _ =>
    let k := common_suffix_steps (rev new) (rev prev) in
    let i := (List.length new - 1 - k)%nat in
    let i := if Nat.eqb i 0 then 1%nat else i in
    (firstn i new, Nat.ltb i (List.length new - 1))
  end.

(* fmt.Sprintf("%+v", pkgErrors.StackTrace) *)
Definition print_frame (f : frame) : str :=
  fr_fn f ++ [nl; 9] ++ fr_file f ++ [colon] ++ dec_of_N (fr_line f).
Definition print_stack (st : stack) : str :=
  flat_map (fun f => nl :: print_frame f) st.

Fixpoint replace_nl (s : str) (by_ : str) : str :=
  match s with
  | [] => []
  | c :: r => if c =? nl then by_ ++ replace_nl r by_ else c :: replace_nl r by_
  end.

(* ---------- what a node contributes ---------- *)
Record nsem := mknsem {
  ns_text : str;                         (* Error() *)
  ns_tmarks : list tmark;                (* errbase.GetTypeMark of the chain from this node *)
  ns_sent : bool;                        (* markers.IsAny(e, sentinels of specialCaseFormat) *)
  ns_safemsg : option str;               (* SafeMessage() when the type is a redact.SafeMessager *)
  (* formatRecursive(err, isOutermost, withDetail, withDepth, depth) *)
  ns_fmt : bool -> bool -> bool -> nat -> fstate -> fstate * nat }.

(* extractPrefix on the two Error() texts *)
Definition extract_prefix (err_msg cause_msg : str) : str * N :=
  match drop_suffix cause_msg err_msg with
  | Some prefix =>
    match prefix with
    | [] => ([], 0)
    | _ => match drop_suffix colon_sp prefix with
           | Some p => (p, 0)
           | None => (err_msg, 1)
           end
    end
  | None => (err_msg, 1)
  end.

(* formatSimple: returns elideCauses *)
Definition format_simple (st : fstate) (err_msg : str) (cause_msg : option str) : fstate * bool :=
  match cause_msg with
  | Some cm =>
    let '(pref, mt) := extract_prefix err_msg cm in
    (st_write st pref, N.eqb mt 1)
  | None => (st_write st err_msg, false)
  end.

Fixpoint mark_first (n : nat) (es : list fentry) : list fentry :=
  match n, es with
  | S k, e :: r =>
    mkentry (fe_ty e) (fe_red e) (fe_head e) (fe_details e) true (fe_stack e) (fe_elided e) (fe_depth e)
    :: mark_first k r
  | _, _ => es
  end.

(* elideShortChildren(n): the n most recent entries *)
Definition elide_short (st : fstate) (n : nat) : fstate :=
  set_entries st (mark_first n (fs_entries st)).

Definition collect_entry (st : fstate) (ty : str) (buf_red with_depth : bool) (depth : nat) : fentry :=
  let '(head, details) :=
    if fs_wantDetail st then
      if fs_hasDetail st then (fs_headbuf st, fs_buf st) else (fs_buf st, [])
    else
      let h := fs_headbuf st in
      let h1 := match last_byte h, first_byte (fs_buf st) with
                | Some a, Some b => if negb (a =? nl) && negb (b =? nl) then h ++ [nl] else h
                | _, _ => h
                end in
      (h1 ++ fs_buf st, []) in
  let '(red, head, details) :=
    if buf_red then
      if fs_redout st then (true, head, details)
      else (false, strip_markers head, strip_markers details)
    else (false, head, details) in
  mkentry ty red head details false None false (if with_depth then depth else 0%nat).

(* result of the per-type part of formatRecursive *)
Record body_res := mkbody {
  br_st : fstate;
  br_red : bool;        (* bufIsRedactable *)
  br_elide : bool;      (* elideShortChildren(numChildren) requested *)
  br_seen : bool }.     (* seenTrace *)

(* the common skeleton of formatRecursive *)
Definition format_node
  (ty : str) (single : option nsem) (multi : list nsem) (own_stack : option stack)
  (body : bool -> fstate -> body_res)
  (outermost with_detail with_depth : bool) (depth : nat) (st : fstate) : fstate * nat :=
  let '(st1, n1) := match single with
                    | Some sc => ns_fmt sc false with_detail with_depth (S depth) st
                    | None => (st, 0%nat)
                    end in
  let '(st2, n2) := fold_left
      (fun (acc : fstate * nat) (k : nsem) =>
         let '(s', m) := ns_fmt k false with_detail true (S depth) (fst acc) in (s', (snd acc + m)%nat))
      multi (st1, n1) in
  let st3 := mkst (fs_redout st2) (fs_plus st2) (fs_entries st2) (fs_buf st2) [] (fs_last st2)
                  false with_detail false 0 in
  let r := body outermost st3 in
  let st4 := if br_elide r then elide_short (br_st r) n2 else br_st r in
  let e0 := collect_entry st4 ty (br_red r) with_depth depth in
  let '(e1, st5) :=
    if br_seen r then (e0, st4) else
    match own_stack with
    | Some stk =>
      let '(s', el) := elide_shared (fs_last st4) stk in
      (mkentry (fe_ty e0) (fe_red e0) (fe_head e0) (fe_details e0) (fe_elide e0) (Some s') el (fe_depth e0),
       set_last st4 s')
    | None => (e0, st4)
    end in
  (set_buf (set_entries st5 (e1 :: fs_entries st5)) [], S n2).

(* printEntry *)
Definition out_bytes (st_red : bool) (e : fentry) (b : str) : str :=
  if negb st_red || fe_red e then b else escape_bytes b.

Definition print_entry (red : bool) (e : fentry) : str :=
  let h := match fe_head e with
           | [] => []
           | c :: _ => (if c =? nl then [] else [sp]) ++ out_bytes red e (fe_head e)
           end in
  let d := match fe_details e with
           | [] => []
           | c :: _ =>
             (match fe_head e with
              | [] => if c =? nl then [] else [sp]
              | _ => []
              end) ++ out_bytes red e (fe_details e)
           end in
  let s := match fe_stack e with
           | Some stk =>
             nl :: lit "  -- stack trace:" ++ replace_nl (print_stack stk) detail_sep ++
             (if fe_elided e then detail_sep ++ lit "[...repeated from below...]" else [])
           | None => []
           end in
  h ++ d ++ s.

(* formatSingleLineOutput: entries newest first = Go's loop from the last index down *)
Fixpoint single_line (red : bool) (es : list fentry) (acc : str) : str :=
  match es with
  | [] => acc
  | e :: r =>
    if fe_elide e then single_line red r acc else
    match fe_head e with
    | [] => single_line red r acc
    | _ =>
      let acc1 := match acc with [] => acc | _ => acc ++ colon_sp end in
      single_line red r (acc1 ++ out_bytes red e (fe_head e))
    end
  end.

Definition indent_for (depth : nat) : str :=
  (* for m := 0; m < depth-1; m++ { if m == depth-2 "└─ " else "  " } *)
  match depth with
  | O | S O => []
  | S (S k) => rep_str k (lit "  ") ++ [226; 148; 148; 226; 148; 128; 32]
  end.

Fixpoint wraps_lines (red : bool) (es : list fentry) (j : N) : str :=
  match es with
  | [] => []
  | e :: r =>
    nl :: indent_for (fe_depth e) ++ lit "Wraps: (" ++ dec_of_N j ++ lit ")" ++ print_entry red e
    ++ wraps_lines red r (j + 1)
  end.

Fixpoint types_line (es : list fentry) (j : N) : str :=
  match es with
  | [] => []
  | e :: r => lit " (" ++ dec_of_N j ++ lit ") " ++ fe_ty e ++ types_line r (j + 1)
  end.

(* formatEntries *)
Definition format_entries (red : bool) (es : list fentry) : str :=
  match es with
  | [] => []    (* unreachable: formatRecursive always appends one entry *)
  | e :: r =>
    single_line red es [] ++ nl :: lit "(1)" ++ print_entry red e
    ++ wraps_lines red r 2
    ++ nl :: lit "Error types:" ++ types_line es 1
  end.

(* finalBuf for "%+v" and for "%v"/"%s" *)
Definition final_verbose (ns : nsem) (red : bool) : str :=
  let '(st, _) := ns_fmt ns true true false 0%nat (st_init red true) in
  format_entries red (fs_entries st).

Definition final_short (ns : nsem) (red plus : bool) : str :=
  let '(st, _) := ns_fmt ns true false false 0%nat (st_init red plus) in
  single_line red (fs_entries st) [].

(* the redactable bytes a nested error contributes to a surrounding redact
   printer: finishDisplay does sp.Print(redact.RedactableBytes(finalBuf)) *)
(* redact's handleMethods tests SafeMessager before error: such an argument
   prints its SafeMessage() as a safe string whatever the verb *)
Definition nested_v (ns : nsem) : piece :=
  match ns_safemsg ns with Some m => PSafe m | None => PRaw (final_short ns true false) end.
Definition nested_plus_v (ns : nsem) : piece :=
  match ns_safemsg ns with Some m => PSafe m | None => PRaw (final_verbose ns true) end.

(* ---------- per-type parts ---------- *)
Definition body_safe (st : fstate) (next_nil : bool) : body_res := mkbody st true next_nil false.

(* if p.Detail() { k } *)
Definition if_detail (st : fstate) (k : fstate -> fstate) : fstate :=
  let '(st1, d) := st_detail st in if d then k st1 else st1.

Definition opaque_details (kind : string) (d : details) (st : fstate) : fstate :=
  let st1 := sp_print st [PLit (nl :: lit kind)] in
  let st2 := sp_print st1 [PLit (nl :: lit "type name: "); PSafe (dt_orig d)] in
  let st3 := snd (fold_left
      (fun (acc : N * fstate) (r : str) =>
         (fst acc + 1,
          sp_print (snd acc) [PLit (nl :: lit "reportable "); PSafe (dec_of_N (fst acc));
                              PLit ([colon; nl]); PSafe r]))
      (dt_rep d) (0, st2)) in
  match dt_full d with
  | Some p => sp_print st3 [PLit (nl :: lit "payload type: "); PSafe (any_url p)]
  | None => st3
  end.

Definition tag_piece_list (kv : str * tagval) : list piece :=
  let '(k, v) := kv in
  let eq := match v with
            | TVNil => []
            | _ => if Nat.ltb 1 (List.length k) then lit "=" else []
            end in
  [PSafe k; PSafe eq;
   match v with
   | TVNil => PSafe []
   | TVStr s => PUnsafe s
   | TVInt z => PUnsafe (dec_of_Z z)
   | TVSafe s => PSafe s
   end].

(* contexttags.redactableTagsIterate: one redactable string per tag *)
Definition tag_redactable (kv : str * tagval) : str := sprint_pieces (tag_piece_list kv).

Fixpoint print_tags (st : fstate) (tags : list (str * tagval)) (first : bool) : fstate :=
  match tags with
  | [] => st
  | kv :: r =>
    let st1 := if first then st else sp_print st [PLit (lit ",")] in
    print_tags (sp_print st1 [PRaw (tag_redactable kv)]) r false
  end.

Fixpoint print_safe_details (st : fstate) (ds : list str) (comma : str) : fstate :=
  match ds with
  | [] => st
  | d :: r => print_safe_details (sp_print st [PSafe comma; PSafe d]) r [nl]
  end.

(* SafeFormatError / FormatError of the library wrapper types; result: (state, next == nil, redactable) *)
Definition wrap_body (w : wlayer) (st : fstate) : option (fstate * bool * bool) :=
  match w with
  | WStack _ =>
    Some (if_detail st (fun s => sp_print s [PLit (lit "attached stack trace")]), false, true)
  | WPrefix rp => Some (sp_print st [PRaw rp], false, true)
  | WNewMsg rm => Some (sp_print st [PRaw rm], true, true)
  | WHint h => Some (if_detail st (fun s => pl_print s h), false, false)
  | WDetail d => Some (if_detail st (fun s => pl_print s d), false, false)
  | WIssueLink url det =>
    Some (if_detail st (fun s =>
            let s1 := match url with [] => s | _ => sp_print s [PLit (lit "issue: "); PSafe url] end in
            match det with
            | [] => s1
            | _ => sp_print s1 [PSafe (match url with [] => [] | _ => [nl] end);
                                PLit (lit "detail: "); PSafe det]
            end), false, true)
  | WTelemetry keys =>
    Some (if_detail st (fun s =>
            sp_print s [PLit (lit "keys: ["); PSafe (join [sp] keys); PLit (lit "]")]), false, true)
  | WDomain d => Some (if_detail st (fun s => sp_print s [PSafe d]), false, true)
  | WContext tags _ =>
    (* p.Detail() && w.tags != nil: tags is never empty when non-nil *)
    Some (let '(st1, d) := st_detail st in
          if d && negb (match tags with [] => true | _ => false end) then
            let s1 := sp_print st1 [PLit (lit "tags: [")] in
            let s2 := print_tags s1 tags true in
            sp_print s2 [PLit (lit "]")]
          else st1, false, true)
  | WAssert => Some (if_detail st (fun s => sp_print s [PLit (lit "assertion failure")]), false, true)
  | WMark m =>
    Some (if_detail st (fun s =>
            let s1 := sp_print s [PLit (lit "forced error mark" ++ [nl])] in
            let t0 := match em_types m with t :: _ => t | [] => mktm [] [] end in
            sp_print s1 [PUnsafe (go_quote (em_msg m)); PLit [nl]; PSafe (tm_family t0);
                         PLit (lit "::"); PSafe (tm_ext t0)]), false, true)
  | WSafeDetails ds =>
    Some (if_detail st (fun s =>
            let n := List.length ds in
            if Nat.eqb n 1 then print_safe_details s ds []
            else
              let s1 := sp_print s [PSafe (dec_of_N (N.of_nat n)); PLit (lit " safe detail");
                                    PSafe (lit "s"); PLit (lit " enclosed")] in
              print_safe_details s1 ds [nl]), false, true)
  | WHTTP code =>
    Some (if_detail st (fun s => sp_print s [PLit (lit "http code: "); PUnsafe (dec_of_Z code)]), false, true)
  | WGrpc code =>
    Some (if_detail st (fun s => sp_print s [PLit (lit "gRPC code: "); PSafe (grpc_code_name code)]), false, true)
  | _ => None
  end.

(* net.OpError: Error() up to the cause: op [" " net] [" " source] [("->" | " ") addr] *)
Definition operror_head (op net src addr : str) : str :=
  op ++ (match net with [] => [] | _ => sp :: net end)
     ++ (match src with [] => [] | _ => sp :: src end)
     ++ (match addr with [] => [] | _ => (match src with [] => [sp] | _ => lit "->" end) ++ addr end).

(* Error() of wrapper types, from the cause's record *)
Definition wrap_text (w : wlayer) (c : nsem) (cause_is_formatter : bool) : str :=
  let cause_v := if cause_is_formatter then final_short c false false else ns_text c in
  match w with
  | WPrefix rp => match rp with [] => ns_text c | _ => strip_markers rp ++ colon_sp ++ cause_v end
  | WNewMsg rm => strip_markers rm
  | WFmtWrap msg => msg
  | WPkgMsg msg => msg ++ colon_sp ++ ns_text c
  | WPathError op path => op ++ [sp] ++ path ++ colon_sp ++ ns_text c
  | WLinkError op old new => op ++ [sp] ++ old ++ [sp] ++ new ++ colon_sp ++ ns_text c
  | WSyscallError sc => sc ++ colon_sp ++ ns_text c
  | WOpError op net src addr => operror_head op net src addr ++ colon_sp ++ ns_text c
  | WUser UWFull msg _ => msg
  | WUser UWEmpty _ _ => ns_text c
  | WUser _ msg _ => msg ++ colon_sp ++ ns_text c
  | _ => ns_text c
  end.

(* does the Go type implement fmt.Formatter (so that fmt's %v/%s go through its
   Format method, which for library types is the engine)? *)
Definition has_format_method (e : err) : bool :=
  match e with
  | Leaf _ (LPkgFund _ _) => true
  | Leaf _ (LLeafError _) | Leaf _ (LUnimpl _ _ _) => true
  | Leaf _ _ => false
  | Wrap _ (WFmtWrap _) _ | Wrap _ (WPathError _ _) _ | Wrap _ (WLinkError _ _ _) _
  | Wrap _ (WSyscallError _) _ | Wrap _ (WUser _ _ _) _ | Wrap _ (WOpError _ _ _ _) _ => false
  | Wrap _ _ _ => true
  | Second _ _ _ | Barrier _ _ _ | OLeaf _ _ _ _ | OWrap _ _ _ _ _ => true
  | Multi _ MJoin _ => true
  | Multi _ _ _ => false
  end.

(* is the Format method the library engine (FormatError)?  pkg/errors types
   have their own Format. *)
Definition lib_format (e : err) : bool :=
  match e with
  | Leaf _ (LPkgFund _ _) => false
  | Wrap _ (WPkgMsg _) _ | Wrap _ (WPkgStack _) _ => false
  | _ => has_format_method e
  end.

Definition sentinel_marks : list (str * tmark) :=
  let es := mktm (lit "errors/*errors.errorString") [] in
  [ (lit "context deadline exceeded", mktm (lit "context/context.deadlineExceededError") []);
    (lit "context canceled", es);
    (lit "invalid argument", es);
    (lit "permission denied", es);
    (lit "file already exists", es);
    (lit "file does not exist", es);
    (lit "file already closed", es);
    (lit "file type does not support deadline", es) ].

Definition special_sentinel_oids : list oid :=
  [oid_canceled; oid_invalid; oid_permission; oid_exist; oid_notexist; oid_closed; oid_nodeadline].

(* mark of this node equals the mark of one of the sentinels (equalMarks with
   the length comparison of the repaired code) *)
Definition mark_is_sentinel (text : str) (tms : list tmark) : bool :=
  match tms with
  | [t] => existsb (fun p => str_eqb text (fst p) && tmark_eqb t (snd p)) sentinel_marks
  | _ => false
  end.

(* identity / Is-method phase of IsAny against the sentinels, for one node *)
Definition own_sentinel (e : err) : bool :=
  match e with
  (* the identity test against the os / context sentinels is subsumed by the
     mark test ([mark_is_sentinel]): a sentinel object has the sentinel's text and
     type, and any *errors.errorString with that text matches by mark anyway.  So
     nothing in this file looks at object identities. *)
  | Leaf _ LDeadline => true
  | Leaf _ (LErrno n) => errno_is_perm n || errno_is_exist n || errno_is_notexist n
  | Leaf _ (LOpaqueErrno _ p) => en_perm p || en_exist p || en_notexist p
  | _ => false
  end.

Definition tmark_of (e : err) (ext : str) : tmark :=
  match e with
  | OLeaf _ _ d _ | OWrap _ _ d _ _ => mktm (dt_fam d) (dt_ext d)
  | Wrap _ (WPathError _ _) _ => mktm (lit "os/*os.PathError") ext     (* registered migration *)
  | _ => mktm (go_full_name e) ext
  end.

Definition own_ext (e : err) : str :=
  match e with Wrap _ (WDomain d) _ => d | _ => [] end.

Definition own_tmark (e : err) : tmark := tmark_of e (own_ext e).

Definition grpc_status_text (code : N) (msg : str) : str :=
  lit "rpc error: code = " ++ grpc_code_name code ++ lit " desc = " ++ msg.

Definition leaf_text (k : leafk) : str :=
  match k with
  | LErrString m => m
  | LDeadline => lit "context deadline exceeded"
  | LPkgFund m _ => m
  | LErrno n => errno_text n
  | LOpaqueErrno m _ => m
  | LLeafError rm => strip_markers rm
  | LUnimpl m _ _ => m
  | LGrpcStatus c m => grpc_status_text c m
  | LGogoStatus c m => grpc_status_text c m
  | LTestError => lit "test error"
  | LFmtWrapNil m => m
  | LUser _ m _ _ => m
  end.

Definition leaf_stack (k : leafk) : option stack :=
  match k with LPkgFund _ st => Some st | _ => None end.

Definition wrap_stack (w : wlayer) : option stack :=
  match w with WStack st | WPkgStack st => Some st | _ => None end.

(* the default branch of formatRecursive: special-case printer, else formatSimple.
   [is_leaf] is what the engine passes as isLeaf. *)
Definition default_body (e : err) (text : str) (sent : bool) (is_leaf has_multi : bool)
           (cause_text : option str) (st : fstate) : body_res :=
  if is_leaf && sent then
    mkbody (sp_print st [PSafe text]) true true false
  else
  match e with
  | Leaf _ (LErrno _) => mkbody (sp_print st [PSafe text]) true false false
  | Wrap _ (WSyscallError sc) _ => mkbody (sp_print st [PSafe sc]) true false false
  | Wrap _ (WPathError op path) _ =>
    mkbody (sp_print st [PSafe op; PLit [sp]; PUnsafe path]) true false false
  | Wrap _ (WLinkError op old new) _ =>
    mkbody (sp_print st [PSafe op; PLit [sp]; PUnsafe old; PLit [sp]; PUnsafe new]) true false false
  | Wrap _ (WOpError op net src addr) _ =>
    (* p.Print(Safe(Op)); p.Printf(" %s", Safe(Net)); p.Printf(" %s", Source); p.Printf(" ->"); p.Printf(" %s", Addr) *)
    let s1 := sp_print st [PSafe op] in
    let s2 := match net with [] => s1 | _ => sp_print s1 [PLit [sp]; PSafe net] end in
    let s3 := match src with [] => s2 | _ => sp_print s2 [PLit [sp]; PUnsafe src] end in
    let s4 := match addr with
              | [] => s3
              | _ => let s' := match src with [] => s3 | _ => sp_print s3 [PLit (lit " ->")] end in
                     sp_print s' [PLit [sp]; PUnsafe addr]
              end in
    mkbody s4 true false false
  | Leaf _ (LUser ULSafeMsg m _ _) => mkbody (sp_print st [PSafe m]) true true false
  | _ =>
    let '(st1, el) := format_simple st text cause_text in
    mkbody st1 false (el || has_multi) false
  end.

(* pkg/errors fundamental.Format(s, 'v') called by the engine for a
   non-outermost leaf: message, then one Fprintf("\n%+v", frame) per frame when
   the State has the '+' flag *)
Definition fundamental_format (st : fstate) (msg : str) (stk : stack) : fstate :=
  let st1 := st_write st msg in
  if fs_plus st then fold_left (fun s f => st_write s (nl :: print_frame f)) stk st1 else st1.

Definition is_full_msg (mt : N) : bool := mt =? 1.

(* ---------- the recursion ---------- *)
Fixpoint sem (e : err) : nsem :=
  let ty := go_type_string e in
  match e with
  | Leaf i k =>
    let text := leaf_text k in
    let tms := [own_tmark e] in
    let sent := own_sentinel e || mark_is_sentinel text tms in
    let body := fun (outermost : bool) (st : fstate) =>
      match k with
      | LLeafError rm => body_safe (sp_print st [PRaw rm]) true
      | LUnimpl m url det =>
        let st1 := sp_print st [PUnsafe m] in
        body_safe (if_detail st1 (fun s =>
          let s1 := sp_print s [PLit (lit "unimplemented")] in
          let s2 := match url with [] => s1 | _ => sp_print s1 [PLit (nl :: lit "issue: "); PSafe url] end in
          match det with [] => s2 | _ => sp_print s2 [PLit (nl :: lit "detail: "); PSafe det] end)) true
      | LPkgFund m stk =>
        if negb outermost then mkbody (set_last (fundamental_format st m stk) stk) false false true
        else let '(st1, el) := format_simple st text None in mkbody st1 false el false
      | _ => default_body e text sent true false None st
      end in
    mknsem text tms sent (match k with LUser ULSafeMsg m _ _ => Some m | _ => None end) (format_node ty None [] (leaf_stack k) body)
  | Wrap i w c =>
    let sc := sem c in
    let text := wrap_text w sc (lib_format c) in
    let tms := own_tmark e :: ns_tmarks sc in
    let sent := mark_is_sentinel text tms || ns_sent sc in
    let body := fun (outermost : bool) (st : fstate) =>
      match wrap_body w st with
      | Some (st1, next_nil, red) => mkbody st1 red next_nil false
      | None =>
        match w with
        | WPkgMsg _ | WPkgStack _ =>
          let '(st1, el) := format_simple st text (Some (ns_text sc)) in mkbody st1 false el false
        | _ => default_body e text sent false false (Some (ns_text sc)) st
        end
      end in
    mknsem text tms sent None (format_node ty (Some sc) [] (wrap_stack w) body)
  | Second i c s =>
    let sc := sem c in let ss := sem s in
    let text := ns_text sc in
    let tms := own_tmark e :: ns_tmarks sc in
    let sent := mark_is_sentinel text tms || ns_sent sc in
    let body := fun (_ : bool) (st : fstate) =>
      body_safe (if_detail st (fun s' =>
        sp_print s' [PLit (lit "secondary error attachment" ++ [nl]); nested_plus_v ss])) false in
    mknsem text tms sent None (format_node ty (Some sc) [] None body)
  | Barrier i smsg m =>
    let sm := sem m in
    let text := strip_markers smsg in
    let tms := [own_tmark e] in
    let sent := mark_is_sentinel text tms in
    let body := fun (_ : bool) (st : fstate) =>
      let st1 := sp_print st [PRaw smsg] in
      body_safe (if_detail st1 (fun s' =>
        sp_print s' [PLit (lit "-- cause hidden behind barrier" ++ [nl]); nested_plus_v sm])) true in
    mknsem text tms sent None (format_node ty None [] None body)
  | Multi i k cs =>
    let scs := List.map sem cs in
    let tms := [own_tmark e] in
    let kids_sent := existsb ns_sent scs in
    match k with
    | MJoin =>
      let body := fun (_ : bool) (st : fstate) =>
        let st1 := snd (fold_left
          (fun (acc : bool * fstate) (sc : nsem) =>
             let s0 := if fst acc then snd acc else sp_print (snd acc) [PUnsafe [nl]] in
             (false, sp_print s0 [nested_v sc]))
          scs (true, st)) in
        body_safe st1 true in
      let fmtf := format_node ty None scs None body in
      (* Error() = redact.Sprint(e).StripMarkers() *)
      let short := let '(st, _) := fmtf true false false 0%nat (st_init true false) in
                   single_line true (fs_entries st) [] in
      let text := strip_markers (sprint_pieces [PRaw short]) in
      mknsem text tms (mark_is_sentinel text tms || kids_sent) None fmtf
    | MStdJoin =>
      let text := join [nl] (List.map ns_text scs) in
      let sent := mark_is_sentinel text tms || kids_sent in
      let body := fun (_ : bool) (st : fstate) =>
        default_body e text sent (match cs with [] => true | _ => false end) true None st in
      mknsem text tms sent None (format_node ty None scs None body)
    | MFmtWraps msg =>
      let text := msg in
      let sent := mark_is_sentinel text tms || kids_sent in
      let body := fun (_ : bool) (st : fstate) =>
        default_body e text sent (match cs with [] => true | _ => false end) true None st in
      mknsem text tms sent None (format_node ty None scs None body)
    end
  | OLeaf i msg d cs =>
    let scs := List.map sem cs in
    let text := msg in
    let tms := [own_tmark e] in
    let sent := mark_is_sentinel text tms || existsb ns_sent scs in
    let body := fun (_ : bool) (st : fstate) =>
      let st1 := sp_print st [PUnsafe msg] in
      body_safe (if_detail st1 (opaque_details "(opaque error leaf)" d)) true in
    mknsem text tms sent None (format_node ty None scs None body)
  | OWrap i pfx d mt c =>
    let sc := sem c in
    let cause_s := if lib_format c then final_short sc false false else ns_text sc in
    let text := if is_full_msg mt then pfx
                else match pfx with [] => ns_text sc | _ => pfx ++ colon_sp ++ cause_s end in
    let tms := own_tmark e :: ns_tmarks sc in
    let sent := mark_is_sentinel text tms || ns_sent sc in
    let body := fun (_ : bool) (st : fstate) =>
      let st1 := match pfx with [] => st | _ => sp_print st [PUnsafe pfx] end in
      body_safe (if_detail st1 (opaque_details "(opaque error wrapper)" d)) (is_full_msg mt) in
    mknsem text tms sent None (format_node ty (Some sc) [] None body)
  end.

Definition error_text (e : err) : str := ns_text (sem e).

(* ---- renderings as a caller sees them ---- *)
(* redact.Sprintf("%+v", e) / redact.Sprint(e) *)
Definition fmt_red_verbose (e : err) : str := sprint_pieces [nested_plus_v (sem e)].
Definition fmt_red_short (e : err) : str := sprint_pieces [nested_v (sem e)].
(* fmt.Sprintf("%+v" / "%v", errors.Formattable(e)) *)
Definition fmt_plain_verbose (e : err) : str := final_verbose (sem e) false.
Definition fmt_plain_short (e : err) : str := final_short (sem e) false false.
