(* Type migrations (errbase/migrations.go) and what they mean for identity
   across code versions (C17).  Definitions only. *)
From Errv Require Import Base.Str.

Definition key := str.

(* backwardRegistry: new type key |-> the key it is known under on the wire *)
Definition registry := list (key * key).

Fixpoint reg_find (r : registry) (k : key) : option key :=
  match r with
  | [] => None
  | (n, p) :: rest => if str_eqb n k then Some p else reg_find rest k
  end.

(* RegisterTypeMigration(prev, new): None = the duplicate-target panic *)
Definition register (prev new : key) (r : registry) : option registry :=
  match reg_find r new with
  | Some _ => None
  | None =>
    let prev' := match reg_find r prev with Some f => f | None => prev end in
    Some ((new, prev') :: List.map (fun np => (fst np, if str_eqb (snd np) new then prev' else snd np)) r)
  end.

(* a sequence of registrations, from the empty registry *)
Fixpoint register_all (regs : list (key * key)) (r : registry) : option registry :=
  match regs with
  | [] => Some r
  | (prev, new) :: rest =>
    match register prev new r with
    | Some r' => register_all rest r'
    | None => None
    end
  end.

(* getTypeDetails / GetTypeKey: the family name an error of local type [k] is
   encoded under, and compared by *)
Definition resolve (r : registry) (k : key) : key :=
  match reg_find r k with Some f => f | None => k end.

(* ---- code versions ---- *)
(* a process runs one version of the code: it either has the type under some
   local name (with the renames it declared), or does not have it at all *)
Record version := mkver { v_local : option key; v_reg : registry }.

(* what travels / is compared: the family name *)
Inductive held := Local (name : key) | Opaque (family : key).

Definition family_of (v : version) (h : held) : key :=
  match h with Local n => resolve (v_reg v) n | Opaque f => f end.

(* an error of the type, created in version v *)
Definition create (v : version) : option held :=
  match v_local v with Some n => Some (Local n) | None => None end.

(* encode in version v: the family on the wire *)
Definition send (v : version) (h : held) : key := family_of v h.

(* decode in version v: the decoder of the local type is registered under the
   type's key (its resolved name); anything else becomes the opaque type, which
   remembers the family *)
Definition receive (v : version) (fam : key) : held :=
  match v_local v with
  | Some n => if str_eqb (resolve (v_reg v) n) fam then Local n else Opaque fam
  | None => Opaque fam
  end.

(* Is between two errors of the (possibly renamed) type held in version v, all
   else being equal: their type marks agree *)
Definition same_type (v : version) (a b : held) : bool := str_eqb (family_of v a) (family_of v b).

(* a hop *)
Definition hop_v (from to : version) (h : held) : held := receive to (send from h).
