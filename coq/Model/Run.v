(* Case runner: evaluates the observations a case asks for on the model and
   prints them as S-expressions, in exactly the syntax the Go harness uses for
   what it observed on the implementation. *)
From Errv Require Import Base.Str Base.Sexp Redact.Markers Redact.Buffer
     Model.Err Model.Sem Model.Details Model.Marks Model.Codec Model.Access Model.Build Model.Parse
     Model.Report Model.Std.

Fixpoint shape (e : err) : sexp :=
  let hd := [sym "n"; A (go_full_name e); A (error_text e)] in
  match e with
  | Wrap _ _ c | Second _ c _ | OWrap _ _ _ _ c => L (hd ++ [L [sym "c"; shape c]])
  | Multi _ _ cs | OLeaf _ _ _ cs =>
    match cs with
    | [] => L hd
    | _ => L (hd ++ [L (sym "m" :: List.map shape cs)])
    end
  | _ => L hd
  end.

Definition sexp_tmark (t : tmark) : sexp := L [A (tm_family t); A (tm_ext t)].

Fixpoint sexp_enc (x : enc) : sexp :=
  match x with
  | ELeaf msg d cs => L [sym "leaf"; A msg; sexp_details d; L (List.map sexp_enc cs)]
  | EWrap c msg d mt => L [sym "wrap"; sexp_enc c; A msg; sexp_details d; sN mt]
  end
with sexp_details (d : details) : sexp :=
  match d with
  | mkdet o f x rep full =>
    L [sym "d"; A o; A f; A x; sStrs rep;
       match full with Some p => sexp_payload p | None => sym "none" end]
  end
with sexp_payload (p : payload) : sexp :=
  match p with
  | PlString s => L [sym "string"; A s]
  | PlStrings l => L (sym "strings" :: List.map A l)
  | PlTags l => L (sym "tags" :: List.map (fun kv => L [A (fst kv); A (snd kv)]) l)
  | PlMark m tys => L (sym "mark" :: A m :: List.map sexp_tmark tys)
  | PlErrno e => L [sym "errno"; sZ (en_errno e); A (en_arch e); sB (en_perm e); sB (en_exist e);
                    sB (en_notexist e); sB (en_timeout e); sB (en_temp e)]
  | PlEnc e => L [sym "enc"; sexp_enc e]
  | PlHTTP c => L [sym "http"; sN c]
  | PlGrpc c => L [sym "grpc"; sN c]
  | PlStatus c m => L [sym "status"; sN c; A m]
  | PlTestError => L [sym "testerror"]
  | PlOther u r => L [sym "other"; A u; A r]
  end.

Definition sexp_sdp (p : sdp) : sexp :=
  L [A (sd_orig p); A (sd_fam p); A (sd_ext p); sStrs (sd_details p)].

(* insertion sort of strings for set-valued observables *)
Fixpoint str_leb (a b : str) : bool :=
  match a, b with
  | [], _ => true
  | _ :: _, [] => false
  | x :: a', y :: b' => if x <? y then true else if y <? x then false else str_leb a' b'
  end.
Fixpoint insert_sorted (s : str) (l : list str) : list str :=
  match l with
  | [] => [s]
  | x :: r => if str_leb s x then s :: l else x :: insert_sorted s r
  end.
Definition sort_strs (l : list str) : list str := fold_right insert_sorted [] l.

(* follow a path of steps into an error *)
Fixpoint follow (steps : list sexp) (e : err) : option err :=
  match steps with
  | [] => Some e
  | A s :: r =>
    if str_eqb s (lit "c") then do c <- unwrap_once e; follow r c else None
  | L [A s; k] :: r =>
    if str_eqb s (lit "m") then
      do i <- get_N k; do c <- nth_error (unwrap_multi e) (N.to_nat i); follow r c
    else None
  | _ => None
  end.

Definition sexp_rframe (f : rframe) : sexp :=
  L [A (rf_module f); A (rf_function f); A (rf_abspath f); sZ (rf_line f)].

Definition sexp_frames (o : option (list rframe)) : sexp :=
  match o with Some fs => L (List.map sexp_rframe fs) | None => sym "none" end.

Definition sexp_report (r : sreport) : sexp :=
  L [A (rp_message r);
     L (List.map (fun x => L [A (ex_type x); A (ex_value x); A (ex_module x); sexp_frames (ex_frames x)])
                 (rp_exceptions r));
     A (rp_types r); sN 1].

Record rstate := mkrs { rs_bs : bstate }.

(* build the references of a case: ((sent N) | (path ...) | (recipe R) | (nil) | (xfer REF PROCS)) *)
Fixpoint build_ref (env : benv) (e : option err) (x : sexp) (s : bstate) {struct x}
  : option (option err * bstate) :=
  match x with
  | L [A k] => if str_eqb k (lit "nil") then Some (None, s) else None
  | L [A k; a] =>
    if str_eqb k (lit "sent") then do n <- get_N a; Some (sentinel n, s)
    else if str_eqb k (lit "recipe") then do r <- parse_recipe a; Some (build env r s)
    else if str_eqb k (lit "path") then
      match a, e with
      | L steps, Some e' => Some (follow steps e', s)    (* a path that does not exist is a nil reference *)
      | L _, None => Some (None, s)
      | _, _ => None
      end
    else None
  | L [A k; a; b] =>
    if str_eqb k (lit "xfer") then
      do ps <- parse_procs b;
      do r <- build_ref env e a s;
      match r with
      | (Some x', s1) =>
        let '(y, n1) := transfer ps x' (bs_oid s1) in Some (Some y, mkbs n1 (bs_stk s1))
      | (None, s1) => Some (None, s1)
      end
    else None
  | _ => None
  end.

Fixpoint build_refs (env : benv) (e : option err) (l : list sexp) (s : bstate)
  : option (list (option err) * bstate) :=
  match l with
  | [] => Some ([], s)
  | x :: r =>
    do a <- build_ref env e x s;
    do b <- build_refs env e r (snd a);
    Some (fst a :: fst b, snd b)
  end.

Definition get_ref (refs : list (option err)) (x : sexp) : option (option err) :=
  do i <- get_N x; nth_error refs (N.to_nat i).

(* ---- Is / IsAny evaluated with the marks of all visible nodes computed once
   per error (Proofs/FastIs.v: equal to Marks.is_ / is_any) ---- *)
Definition marked := (err * emark)%type.
Definition with_marks (e : err) : list marked := List.map (fun c => (c, get_mark c)) (visit_all e).
Definition ref_marked (r : option err) : option marked :=
  match r with Some x => Some (x, get_mark x) | None => None end.

Definition node_matches (cm : marked) (rm : marked) : bool :=
  own_match (fst cm) (fst rm) || equal_marks (snd cm) (snd rm).

Definition is_fast (vm : list marked) (rm : marked) : bool :=
  existsb (fun cm => node_matches cm rm) vm.

Definition is_opt_fast (vm : option (list marked)) (r : option marked) : bool :=
  match r with
  | None => match vm with None => true | Some _ => false end
  | Some rm => match vm with None => false | Some l => is_fast l rm end
  end.

Definition is_any_opt_fast (vm : option (list marked)) (rs : list (option marked)) : bool :=
  match vm with
  | None => existsb (fun r => match r with None => true | Some _ => false end) rs
  | Some l => existsb (fun cm => existsb (fun rm => node_matches cm rm) (somes rs)) l
  end.

(* does a list of observations ask for Is / IsAny at this level? (the marks are
   only computed when it does) *)
Definition needs_marks (obs : list sexp) : bool :=
  existsb (fun o => match o with
                    | L (A name :: _) => str_eqb name (lit "is") || str_eqb name (lit "isany")
                    | _ => false
                    end) obs.
Definition marks_if (b : bool) (e : err) : option (list marked) :=
  Some (if b then with_marks e else []).

Definition get_mref (refs : list (option marked)) (x : sexp) : option (option marked) :=
  do i <- get_N x; nth_error refs (N.to_nat i).

Definition bad (why : string) : sexp := L [sym "bad"; sym why].

(* one observation on a possibly-nil error *)
Fixpoint eval_obs (refs : list (option err)) (mrefs : list (option marked)) (n : positive)
         (oe : option err) (vm : option (list marked)) (o : sexp) {struct o} : sexp :=
  let on_err (f : err -> sexp) : sexp :=
    match oe with Some e => f e | None => sym "nil-error" end in
  match o with
  | A name =>
    L [A name;
    if str_eqb name (lit "nilness") then (match oe with Some _ => sym "nonnil" | None => sym "nil" end)
    else if str_eqb name (lit "text") then on_err (fun e => A (error_text e))
    else if str_eqb name (lit "shape") then on_err shape
    else if str_eqb name (lit "root") then on_err (fun e => L [A (go_full_name (unwrap_all e)); A (error_text (unwrap_all e))])
    else if str_eqb name (lit "hints") then on_err (fun e => sStrs (get_all_hints e))
    else if str_eqb name (lit "details") then on_err (fun e => sStrs (get_all_details e))
    else if str_eqb name (lit "flathints") then on_err (fun e => A (flatten_hints e))
    else if str_eqb name (lit "flatdetails") then on_err (fun e => A (flatten_details e))
    else if str_eqb name (lit "links") then
      on_err (fun e => L (List.map (fun l => L [A (fst l); A (snd l)]) (get_all_issue_links e)))
    else if str_eqb name (lit "keys") then on_err (fun e => sStrs (sort_strs (get_telemetry_keys e)))
    else if str_eqb name (lit "domain") then on_err (fun e => A (get_domain e))
    else if str_eqb name (lit "tags") then
      on_err (fun e => L (List.map (fun b => L (List.map (fun kv => L [A (fst kv); A (snd kv)]) b))
                                   (get_context_tags e)))
    else if str_eqb name (lit "flags") then
      on_err (fun e => L [sB (has_assertion_failure e); sB (is_assertion_failure e);
                          sB (has_issue_link e); sB (has_unimplemented e)])
    else if str_eqb name (lit "codes") then on_err (fun e => L [sZ (get_http_code e 0); sN (get_grpc_code e)])
    else if str_eqb name (lit "os") then
      on_err (fun e => L [sB (is_permission e); sB (is_exist e); sB (is_notexist e); sB (is_timeout e)])
    else if str_eqb name (lit "safedetails") then
      on_err (fun e => L (List.map sexp_sdp (get_all_safe_details e)))
    else if str_eqb name (lit "stacks") then
      on_err (fun e => L (List.map (fun c => sexp_frames (get_reportable_stack c)) (chain e)))
    else if str_eqb name (lit "source") then
      on_err (fun e => match get_one_line_source e with
                       | Some (f, l, fn) => L [A f; sZ l; A fn]
                       | None => sym "none"
                       end)
    else if str_eqb name (lit "report") then
      (match oe with Some e => sexp_report (build_report e) | None => sym "none" end)
    else if str_eqb name (lit "std-unwrap") then
      on_err (fun e => match std_unwrap e with
                       | Some u => L [A (go_full_name u); A (error_text u)]
                       | None => sym "none"
                       end)
    else if str_eqb name (lit "pkg-cause") then
      on_err (fun e => L [A (go_full_name (pkg_cause e)); A (error_text (pkg_cause e))])
    else if str_eqb name (lit "enc") then on_err (fun e => sexp_enc (encode e))
    else if str_eqb name (lit "fmt-v") then on_err (fun e => A (fmt_plain_short e))
    else if str_eqb name (lit "fmt+v") then on_err (fun e => A (fmt_plain_verbose e))
    else if str_eqb name (lit "red-v") then on_err (fun e => A (fmt_red_short e))
    else if str_eqb name (lit "red+v") then on_err (fun e => A (fmt_red_verbose e))
    else bad "unknown-observation"]
  | L (A name :: args) =>
    L [A name;
    if str_eqb name (lit "is") then
      match args with
      | [r] => match get_mref mrefs r with Some x => sB (is_opt_fast vm x) | None => bad "ref" end
      | _ => bad "args"
      end
    else if str_eqb name (lit "std-is") then
      match args with
      | [r] => match get_ref refs r with Some x => sB (std_is_opt oe x) | None => bad "ref" end
      | _ => bad "args"
      end
    else if str_eqb name (lit "std-as") then
      match args with
      | [t] => match parse_target t, oe with
               | Some tg, Some e =>
                 match std_as e tg with
                 | Some x => L [sym "found"; A (go_full_name x); A (error_text x)]
                 | None => sym "notfound"
                 end
               | Some tg, None => sym "notfound"
               | None, _ => bad "target"
               end
      | _ => bad "args"
      end
    else if str_eqb name (lit "isany") then
      match omap (get_mref mrefs) args with
      | Some rs => sB (is_any_opt_fast vm rs)
      | None => bad "ref"
      end
    else if str_eqb name (lit "hastype") then
      match args with
      | [r] => match get_ref refs r, oe with
               | Some (Some x), Some e => sB (has_type e x)
               | _, _ => bad "ref"
               end
      | _ => bad "args"
      end
    else if str_eqb name (lit "as") then
      match args with
      | [t] => match parse_target t, oe with
               | Some tg, Some e =>
                 match as_ e tg with
                 | Some x => L [sym "found"; A (go_full_name x); A (error_text x)]
                 | None => sym "notfound"
                 end
               | Some tg, None => sym "notfound"
               | None, _ => bad "target"
               end
      | _ => bad "args"
      end
    else if str_eqb name (lit "hop") then
      match args with
      | ps :: obs =>
        match parse_procs ps with
        | Some procs =>
          match oe with
          | Some e =>
            let '(e1, n1) := transfer procs e n in
            L (List.map (eval_obs refs mrefs n1 (Some e1) (marks_if (needs_marks obs) e1)) obs)
          | None => L (List.map (eval_obs refs mrefs n None None) obs)
          end
        | None => bad "procs"
        end
      | _ => bad "args"
      end
    else bad "unknown-observation"]
  | _ => bad "observation"
  end.

Definition run_case (x : sexp) : sexp :=
  match x with
  | L [A c; A id; stacks; recipe; L refs; L obs] =>
    match parse_stacks stacks, parse_recipe recipe with
    | Some stks, Some r =>
      let env := mkbenv stks in
      let '(oe, s1) := build env r bs_init in
      match build_refs env oe refs s1 with
      | Some (rs, s2) =>
        let vm := match oe with Some e => marks_if (needs_marks obs) e | None => None end in
        L (sym "result" :: A id :: List.map (eval_obs rs (List.map ref_marked rs) (bs_oid s2) oe vm) obs)
      | None => L [sym "result"; A id; bad "refs"]
      end
    | None, _ => L [sym "result"; A id; bad "stacks"]
    | _, None => L [sym "result"; A id; bad "recipe"]
    end
  | _ => L [sym "result"; bad "case"]
  end.
