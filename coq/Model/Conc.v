(* Concurrent read-only use (C18): threads are sequences of atomic actions over
   a shared heap and a private accumulator; a thread whose actions never write
   the heap computes the same result under every interleaving.  The set of
   observer functions of the library and their write effects on shared state
   come from Gen/Effects.v (regenerated from /repo by translators/effects).
   Definitions only. *)
From Coq Require Import List ZArith Bool String.
Import ListNotations.

Definition loc := nat.
Definition heap := loc -> Z.

(* an atomic action of a thread: read a shared location into the private state,
   compute privately, or write a shared location *)
Inductive action :=
| ARead (l : loc) (k : Z -> Z -> Z)     (* priv := k priv (heap l) *)
| ALocal (k : Z -> Z)                   (* priv := k priv *)
| AWrite (l : loc) (k : Z -> Z).        (* heap l := k priv *)

Definition thread := list action.

Definition is_write (a : action) : bool := match a with AWrite _ _ => true | _ => false end.
Definition read_only (t : thread) : bool := forallb (fun a => negb (is_write a)) t.

Definition upd (h : heap) (l : loc) (v : Z) : heap := fun x => if Nat.eqb x l then v else h x.

Definition step (h : heap) (priv : Z) (a : action) : heap * Z :=
  match a with
  | ARead l k => (h, k priv (h l))
  | ALocal k => (h, k priv)
  | AWrite l k => (upd h l (k priv), priv)
  end.

(* a thread run alone *)
Fixpoint run_solo (h : heap) (priv : Z) (t : thread) : heap * Z :=
  match t with
  | [] => (h, priv)
  | a :: r => let '(h', p') := step h priv a in run_solo h' p' r
  end.

(* a system: the remaining actions and the private state of every thread *)
Definition sys := list (thread * Z).

(* a schedule picks, at each step, the index of the thread that moves (a pick of
   a finished or non-existent thread is a no-op) *)
Fixpoint nth_upd {A} (l : list A) (i : nat) (f : A -> A) : list A :=
  match l, i with
  | [], _ => []
  | x :: r, O => f x :: r
  | x :: r, S j => x :: nth_upd r j f
  end.

Definition sys_step (h : heap) (s : sys) (i : nat) : heap * sys :=
  match nth_error s i with
  | Some (a :: rest, p) => let '(h', p') := step h p a in (h', nth_upd s i (fun _ => (rest, p')))
  | _ => (h, s)
  end.

Fixpoint run_sched (h : heap) (s : sys) (sched : list nat) : heap * sys :=
  match sched with
  | [] => (h, s)
  | i :: r => let '(h', s') := sys_step h s i in run_sched h' s' r
  end.

Definition finished (s : sys) : bool := forallb (fun tp => match fst tp with [] => true | _ => false end) s.

(* two accesses conflict when they touch the same location and one is a write *)
Definition writes_of (t : thread) : list loc :=
  flat_map (fun a => match a with AWrite l _ => [l] | _ => [] end) t.

(* ---- the link to the source: write effects of the observer functions ---- *)
Inductive effect_kind :=
| EStoreShared (what : string)     (* store through a receiver / parameter / global *)
| EMapUpdate (what : string)
| ESend (what : string)
| ECallUnknown (what : string)     (* call the extractor could not resolve *)
| EAtomic (what : string).         (* sync/atomic operation on shared state *)

Record fn_effects := mkeff { ef_name : string; ef_effects : list effect_kind }.

Definition no_shared_write (f : fn_effects) : bool :=
  match ef_effects f with [] => true | _ => false end.
