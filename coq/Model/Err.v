(* Error values of the model: what a Go [error] interface value can hold in the
   universe of cockroachdb/errors + the foreign types it adapts + the user
   types of the verification harness.  Definitions only. *)
From Errv Require Import Base.Str.

Definition oid := positive.

(* a pkg/errors Frame: program counter (equality in ElideSharedStackTraceSuffix
   is on the pc) plus what "%+v" prints for it *)
Record frame := mkframe { fr_pc : N; fr_fn : str; fr_file : str; fr_line : N }.
Definition stack := list frame.

Record tmark := mktm { tm_family : str; tm_ext : str }.
Record emark := mkem { em_msg : str; em_types : list tmark }.

Definition tmark_eqb (a b : tmark) : bool :=
  str_eqb (tm_family a) (tm_family b) && str_eqb (tm_ext a) (tm_ext b).

(* value of a logtags tag *)
Inductive tagval :=
| TVNil                 (* nil value *)
| TVStr (s : str)       (* string value *)
| TVInt (z : Z)         (* non-string value (an int), printed with %v *)
| TVSafe (s : str).     (* redact.Safe(string) value *)

Record errno_pl := mkerrno {
  en_errno : Z; en_arch : str;
  en_perm : bool; en_exist : bool; en_notexist : bool; en_timeout : bool; en_temp : bool }.

(* logtags.Buffer.Add: replace the value of an existing key in place, else append *)
Fixpoint tag_add {V} (k : str) (v : V) (l : list (str * V)) : list (str * V) :=
  match l with
  | [] => [(k, v)]
  | (k', v') :: r => if str_eqb k k' then (k, v) :: r else (k', v') :: tag_add k v r
  end.
Definition tags_of {V} (l : list (str * V)) : list (str * V) :=
  fold_left (fun acc kv => tag_add (fst kv) (snd kv) acc) l [].

(* ---- wire representation (errorspb), at message level ---- *)
Inductive enc :=
| ELeaf (msg : str) (d : details) (cs : list enc)
| EWrap (c : enc) (msg : str) (d : details) (mt : N)
with details :=
| mkdet (orig fam ext : str) (rep : list str) (full : option payload)
with payload :=
| PlString (s : str)                    (* errorspb.StringPayload *)
| PlStrings (l : list str)              (* errorspb.StringsPayload *)
| PlTags (l : list (str * str))         (* errorspb.TagsPayload *)
| PlMark (msg : str) (tys : list tmark) (* errorspb.MarkPayload *)
| PlErrno (p : errno_pl)                (* errorspb.ErrnoPayload *)
| PlEnc (e : enc)                       (* errorspb.EncodedError (barrier, secondary) *)
| PlHTTP (c : N)                        (* exthttp.EncodedHTTPCode *)
| PlGrpc (c : N)                        (* extgrpc.EncodedGrpcCode *)
| PlStatus (c : N) (msg : str)          (* google.rpc.Status without details *)
| PlTestError                           (* errorspb.TestError: a proto message that is an error *)
| PlOther (url : str) (raw : str).      (* an Any of a type not registered in the process / not decodable *)

Definition dt_orig (d : details) := let 'mkdet o _ _ _ _ := d in o.
Definition dt_fam (d : details) := let 'mkdet _ f _ _ _ := d in f.
Definition dt_ext (d : details) := let 'mkdet _ _ x _ _ := d in x.
Definition dt_rep (d : details) := let 'mkdet _ _ _ r _ := d in r.
Definition dt_full (d : details) := let 'mkdet _ _ _ _ p := d in p.

(* ---- user-defined types of the harness (package verifharness/ut) ---- *)
Inductive uleaf :=
| ULPlain      (* *ut.Plain{msg}: pointer type, nothing else *)
| ULVal        (* ut.Val{msg}: comparable value type *)
| ULNoCmp      (* ut.NoCmp{msg, []int}: value type that is not comparable *)
| ULIsTag      (* *ut.IsTag{msg, tag}: Is(target) holds for *ut.IsTag targets with the same tag *)
| ULSafeDet    (* *ut.SafeDet{msg, details}: implements SafeDetails() *)
| ULSafeMsg    (* *ut.SafeMsg{msg}: implements SafeMessage() *)
| ULHint       (* *ut.Hinter{msg, hint, detail}: implements ErrorHint / ErrorDetail *)
| ULDual.      (* *ut.WFull{msg, nil}: a wrapper type without a cause, i.e. a leaf of the type of UWFull
                  (a type that is sometimes a leaf and sometimes a wrapper) *)

Inductive uwrap :=
| UWUnwrap     (* *ut.WUnwrap{msg, cause}: Error = msg + ": " + cause, Unwrap() only *)
| UWCause      (* *ut.WCause{msg, cause}: same text, Cause() only *)
| UWBoth       (* *ut.WBoth: Cause() and Unwrap() *)
| UWFull       (* *ut.WFull{msg, cause}: Error = msg alone (elides its cause), Unwrap() *)
| UWEmpty      (* *ut.WEmpty{cause}: Error = cause text, Unwrap() *)
| UWSafeDet    (* *ut.WSafeDet{msg, details, cause}: prefix style + SafeDetails() *)
| UWAs         (* *ut.WAs{msg, cause}: prefix style, Unwrap(), and an As(interface{}) bool method
                  that fills a *ut.Val target with ut.Val{Msg: msg, Tag: 503} *)
| UWNoCmp.     (* ut.WNoCmp{msg, cause, []int}: prefix style, Unwrap(); a value type that is not comparable *)

Inductive leafk :=
| LErrString (msg : str)                 (* *errors.errorString (stdlib errors.New and sentinels) *)
| LDeadline                              (* context.deadlineExceededError{} *)
| LPkgFund (msg : str) (st : stack)      (* *pkgerrors.fundamental *)
| LErrno (n : Z)                         (* syscall.Errno *)
| LOpaqueErrno (msg : str) (p : errno_pl)(* *errbase.OpaqueErrno *)
| LLeafError (rmsg : str)                (* *errutil.leafError; redactable message *)
| LUnimpl (msg url det : str)            (* *issuelink.unimplementedError *)
| LGrpcStatus (code : N) (msg : str)     (* grpc *status.Error *)
| LGogoStatus (code : N) (msg : str)     (* gogo *status.statusError *)
| LTestError                             (* *errorspb.TestError *)
| LFmtWrapNil (msg : str)                (* *fmt.wrapError whose %w argument was nil: Unwrap() = nil *)
| LUser (u : uleaf) (msg : str) (tagn : Z) (xs : list str).

Inductive wlayer :=
| WStack (st : stack)                    (* *withstack.withStack *)
| WPrefix (rp : str)                     (* *errutil.withPrefix; redactable prefix *)
| WNewMsg (rm : str)                     (* *errutil.withNewMessage *)
| WHint (h : str)
| WDetail (d : str)
| WIssueLink (url det : str)
| WTelemetry (keys : list str)
| WDomain (d : str)
| WContext (tags : list (str * tagval)) (redacted : option (list str))
| WAssert
| WMark (m : emark)
| WSafeDetails (ds : list str)
| WHTTP (code : Z)
| WGrpc (code : N)
| WFmtWrap (msg : str)                   (* *fmt.wrapError: msg is the whole text *)
| WPkgMsg (msg : str)                    (* *pkgerrors.withMessage *)
| WPkgStack (st : stack)                 (* *pkgerrors.withStack *)
| WPathError (op path : str)             (* *fs.PathError *)
| WLinkError (op old new : str)          (* *os.LinkError *)
| WSyscallError (sc : str)               (* *os.SyscallError *)
| WOpError (op net src addr : str)       (* *net.OpError; Source / Addr nil when the string is empty *)
| WUser (u : uwrap) (msg : str) (xs : list str).

Inductive multik :=
| MJoin                                  (* *join.joinError *)
| MStdJoin                               (* stdlib *errors.joinError *)
| MFmtWraps (msg : str).                 (* *fmt.wrapErrors: msg is the whole text *)

Inductive err :=
| Leaf (i : oid) (k : leafk)
| Wrap (i : oid) (w : wlayer) (c : err)
| Second (i : oid) (c : err) (s : err)          (* *secondary.withSecondaryError *)
| Barrier (i : oid) (smsg : str) (m : err)      (* *barriers.barrierErr *)
| Multi (i : oid) (k : multik) (cs : list err)
| OLeaf (i : oid) (msg : str) (d : details) (cs : list err)  (* opaqueLeaf (cs=[]) / opaqueLeafCauses *)
| OWrap (i : oid) (pfx : str) (d : details) (mt : N) (c : err).

(* ---- identities of the well-known sentinels ---- *)
Definition oid_canceled : oid := 1%positive.     (* context.Canceled *)
Definition oid_invalid : oid := 2%positive.      (* os.ErrInvalid *)
Definition oid_permission : oid := 3%positive.
Definition oid_exist : oid := 4%positive.
Definition oid_notexist : oid := 5%positive.
Definition oid_closed : oid := 6%positive.
Definition oid_nodeadline : oid := 7%positive.   (* os.ErrNoDeadline *)
Definition oid_eof : oid := 8%positive.          (* io.EOF *)
Definition oid_unexpected_eof : oid := 9%positive.
Definition first_fresh_oid : oid := 100%positive.

Definition sentinel (n : N) : option err :=
  match n with
  | 0 => Some (Leaf oid_canceled (LErrString (lit "context canceled")))
  | 1 => Some (Leaf 10%positive LDeadline)
  | 2 => Some (Leaf oid_invalid (LErrString (lit "invalid argument")))
  | 3 => Some (Leaf oid_permission (LErrString (lit "permission denied")))
  | 4 => Some (Leaf oid_exist (LErrString (lit "file already exists")))
  | 5 => Some (Leaf oid_notexist (LErrString (lit "file does not exist")))
  | 6 => Some (Leaf oid_closed (LErrString (lit "file already closed")))
  | 7 => Some (Leaf oid_nodeadline (LErrString (lit "file type does not support deadline")))
  | 8 => Some (Leaf oid_eof (LErrString (lit "EOF")))
  | 9 => Some (Leaf oid_unexpected_eof (LErrString (lit "unexpected EOF")))
  | _ => None
  end.

(* ---- Go type names ---- *)
Definition lib (s : string) : str := lit "github.com/cockroachdb/errors/" ++ lit s.

(* (package path, reflect.Type.String()) *)
Definition uleaf_ty (u : uleaf) : str :=
  match u with
  | ULPlain => lit "*ut.Plain" | ULVal => lit "ut.Val" | ULNoCmp => lit "ut.NoCmp"
  | ULIsTag => lit "*ut.IsTag" | ULSafeDet => lit "*ut.SafeDet" | ULSafeMsg => lit "*ut.SafeMsg"
  | ULHint => lit "*ut.Hinter" | ULDual => lit "*ut.WFull"
  end.

Definition uwrap_ty (u : uwrap) : str :=
  match u with
  | UWUnwrap => lit "*ut.WUnwrap" | UWCause => lit "*ut.WCause" | UWBoth => lit "*ut.WBoth"
  | UWFull => lit "*ut.WFull" | UWEmpty => lit "*ut.WEmpty" | UWSafeDet => lit "*ut.WSafeDet"
  | UWAs => lit "*ut.WAs" | UWNoCmp => lit "ut.WNoCmp"
  end.

Definition ut_pkg : str := lit "verifharness/ut".

Definition leaf_ty (k : leafk) : str * str :=
  match k with
  | LErrString _ => (lit "errors", lit "*errors.errorString")
  | LDeadline => (lit "context", lit "context.deadlineExceededError")
  | LPkgFund _ _ => (lit "github.com/pkg/errors", lit "*errors.fundamental")
  | LErrno _ => (lit "syscall", lit "syscall.Errno")
  | LOpaqueErrno _ _ => (lib "errbase", lit "*errbase.OpaqueErrno")
  | LLeafError _ => (lib "errutil", lit "*errutil.leafError")
  | LUnimpl _ _ _ => (lib "issuelink", lit "*issuelink.unimplementedError")
  | LGrpcStatus _ _ => (lit "google.golang.org/grpc/internal/status", lit "*status.Error")
  | LGogoStatus _ _ => (lit "github.com/gogo/status", lit "*status.statusError")
  | LTestError => (lib "errorspb", lit "*errorspb.TestError")
  | LFmtWrapNil _ => (lit "fmt", lit "*fmt.wrapError")
  | LUser u _ _ _ => (ut_pkg, uleaf_ty u)
  end.

Definition wrap_ty (w : wlayer) : str * str :=
  match w with
  | WStack _ => (lib "withstack", lit "*withstack.withStack")
  | WPrefix _ => (lib "errutil", lit "*errutil.withPrefix")
  | WNewMsg _ => (lib "errutil", lit "*errutil.withNewMessage")
  | WHint _ => (lib "hintdetail", lit "*hintdetail.withHint")
  | WDetail _ => (lib "hintdetail", lit "*hintdetail.withDetail")
  | WIssueLink _ _ => (lib "issuelink", lit "*issuelink.withIssueLink")
  | WTelemetry _ => (lib "telemetrykeys", lit "*telemetrykeys.withTelemetry")
  | WDomain _ => (lib "domains", lit "*domains.withDomain")
  | WContext _ _ => (lib "contexttags", lit "*contexttags.withContext")
  | WAssert => (lib "assert", lit "*assert.withAssertionFailure")
  | WMark _ => (lib "markers", lit "*markers.withMark")
  | WSafeDetails _ => (lib "safedetails", lit "*safedetails.withSafeDetails")
  | WHTTP _ => (lib "exthttp", lit "*exthttp.withHTTPCode")
  | WGrpc _ => (lib "extgrpc", lit "*extgrpc.withGrpcCode")
  | WFmtWrap _ => (lit "fmt", lit "*fmt.wrapError")
  | WPkgMsg _ => (lit "github.com/pkg/errors", lit "*errors.withMessage")
  | WPkgStack _ => (lit "github.com/pkg/errors", lit "*errors.withStack")
  | WPathError _ _ => (lit "io/fs", lit "*fs.PathError")
  | WOpError _ _ _ _ => (lit "net", lit "*net.OpError")
  | WLinkError _ _ _ => (lit "os", lit "*os.LinkError")
  | WSyscallError _ => (lit "os", lit "*os.SyscallError")
  | WUser u _ _ => (ut_pkg, uwrap_ty u)
  end.

Definition multi_ty (k : multik) : str * str :=
  match k with
  | MJoin => (lib "join", lit "*join.joinError")
  | MStdJoin => (lit "errors", lit "*errors.joinError")
  | MFmtWraps _ => (lit "fmt", lit "*fmt.wrapErrors")
  end.

(* reflect type of the Go value: (pkgpath, String()) *)
Definition go_ty (e : err) : str * str :=
  match e with
  | Leaf _ k => leaf_ty k
  | Wrap _ w _ => wrap_ty w
  | Second _ _ _ => (lib "secondary", lit "*secondary.withSecondaryError")
  | Barrier _ _ _ => (lib "barriers", lit "*barriers.barrierErr")
  | Multi _ k _ => multi_ty k
  | OLeaf _ _ _ [] => (lib "errbase", lit "*errbase.opaqueLeaf")
  | OLeaf _ _ _ _ => (lib "errbase", lit "*errbase.opaqueLeafCauses")
  | OWrap _ _ _ _ _ => (lib "errbase", lit "*errbase.opaqueWrapper")
  end.

(* errbase.getFullTypeName *)
Definition full_name (t : str * str) : str := fst t ++ [47] ++ snd t.
Definition go_full_name (e : err) : str := full_name (go_ty e).
(* %T *)
Definition go_type_string (e : err) : str := snd (go_ty e).

Definition node_oid (e : err) : oid :=
  match e with
  | Leaf i _ | Wrap i _ _ | Second i _ _ | Barrier i _ _ | Multi i _ _
  | OLeaf i _ _ _ | OWrap i _ _ _ _ => i
  end.

(* errbase.UnwrapOnce: every wrapper type of the universe has Cause() or Unwrap() *)
Definition unwrap_once (e : err) : option err :=
  match e with
  | Wrap _ _ c | Second _ c _ | OWrap _ _ _ _ c => Some c
  | _ => None
  end.

(* errbase.UnwrapMulti *)
Definition unwrap_multi (e : err) : list err :=
  match e with
  | Multi _ _ cs => cs
  | OLeaf _ _ _ cs => cs
  | _ => []
  end.

Fixpoint unwrap_all (e : err) : err :=
  match e with
  | Wrap _ _ c | Second _ c _ | OWrap _ _ _ _ c => unwrap_all c
  | _ => e
  end.

(* the single-cause chain, outermost first *)
Fixpoint chain (e : err) : list err :=
  e :: match e with
       | Wrap _ _ c | Second _ c _ | OWrap _ _ _ _ c => chain c
       | _ => []
       end.
