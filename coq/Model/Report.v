(* withstack.GetReportableStackTrace / GetOneLineSource and
   report.BuildSentryReport.  Definitions only. *)
From Errv Require Import Base.Str Redact.Markers Redact.Buffer Model.Err Model.Sem Model.Details
     Model.Marks Model.Access.

(* strings.TrimSpace on the ASCII white space (stack traces are ASCII) *)
Definition is_space (c : N) : bool :=
  (c =? 32) || (c =? 9) || (c =? 10) || (c =? 11) || (c =? 12) || (c =? 13).
Fixpoint trim_left (s : str) : str :=
  match s with c :: r => if is_space c then trim_left r else s | [] => [] end.
Definition trim_space (s : str) : str := rev (trim_left (rev (trim_left s))).

(* strings.LastIndexByte: (before, after) around the last occurrence *)
Fixpoint split_last_aux (c : N) (s : str) (cur : str) (best : option (str * str)) : option (str * str) :=
  match s with
  | [] => best
  | x :: r =>
    if x =? c then split_last_aux c r (cur ++ [x]) (Some (cur, r))
    else split_last_aux c r (cur ++ [x]) best
  end.
Definition split_last (c : N) (s : str) : option (str * str) := split_last_aux c s [] None.

(* strconv.Atoi, 0 on a syntax error *)
Definition atoi (s : str) : Z :=
  match s with
  | 43 :: r => match parse_N r with Some n => Z.of_N n | None => 0%Z end
  | _ => match parse_Z s with Some z => z | None => 0%Z end
  end.

(* sentry.Frame as far as the library fills it *)
Record rframe := mkrf { rf_module : str; rf_function : str; rf_abspath : str; rf_line : Z }.

Definition unknown_s : str := lit "unknown".

(* replace "·" (C2 B7) by "." *)
Fixpoint replace_middot (s : str) : str :=
  match s with
  | 194 :: 183 :: r => 46 :: replace_middot r
  | c :: r => c :: replace_middot r
  | [] => []
  end.

(* functionName *)
Definition function_name (fn : str) : str * str :=
  match split_last 46 fn with
  | Some (pack, name) => (pack, replace_middot name)
  | None => ([], replace_middot fn)
  end.

(* parsePrintedStackEntry(lines, i): (consumed two lines?, file, line, fnName) *)
Definition parse_entry (l0 : str) (next : option str) : bool * str * Z :=
  match next with
  | Some l1 =>
    match l1 with
    | 9 :: _ =>
      let fl := trim_space l1 in
      match split_last colon fl with
      | Some (f, ln) => (true, f, atoi ln)
      | None => (true, fl, 0%Z)
      end
    | _ => (false, [], 0%Z)
    end
  | None => (false, [], 0%Z)
  end.

Definition mk_rframe (fn file : str) (line : Z) : rframe :=
  if str_eqb fn unknown_s then mkrf unknown_s fn file line
  else let '(m, f) := function_name fn in mkrf m f file line.

(* the loop of parsePrintedStack; fuel = number of lines *)
Fixpoint parse_lines (fuel : nat) (lines : list str) : list rframe :=
  match fuel with
  | O => []
  | S f =>
    match lines with
    | [] => []
    | l0 :: rest =>
      let '(two, file, line) := parse_entry l0 (match rest with x :: _ => Some x | [] => None end) in
      mk_rframe l0 file line :: parse_lines f (if two then tl rest else rest)
    end
  end.

Definition parse_printed_stack (st : str) : list rframe :=
  let lines := split_on nl (trim_space st) in
  rev (parse_lines (List.length lines) lines).

Definition k_pkg_fundamental : str := lit "github.com/pkg/errors/*errors.fundamental".
Definition k_pkg_withstack : str := lit "github.com/pkg/errors/*errors.withStack".
Definition k_our_withstack : str := lib "withstack/*withstack.withStack".

Definition is_stack_key (k : str) : bool :=
  str_eqb k k_pkg_fundamental || str_eqb k k_pkg_withstack || str_eqb k k_our_withstack.

Definition own_stack_of (e : err) : option stack :=
  match e with
  | Leaf _ k => leaf_stack k
  | Wrap _ w _ => wrap_stack w
  | _ => None
  end.

(* withstack.GetReportableStackTrace *)
Definition get_reportable_stack (e : err) : option (list rframe) :=
  match own_stack_of e with
  | Some [] => None
  | Some st => Some (parse_printed_stack (print_stack st))
  | None =>
    match safe_details_of e with
    | Some (d0 :: _) => if is_stack_key (type_key e) then Some (parse_printed_stack d0) else None
    | _ => None
    end
  end.

(* filepath.Base *)
Fixpoint drop_trailing_slashes_rev (r : str) : str :=
  match r with 47 :: t => drop_trailing_slashes_rev t | _ => r end.
Definition path_base (s : str) : str :=
  match s with
  | [] => [46]
  | _ =>
    let s1 := rev (drop_trailing_slashes_rev (rev s)) in
    match s1 with
    | [] => [47]
    | _ => match split_last 47 s1 with Some (_, b) => b | None => s1 end
    end
  end.

(* getOneLineSourceFromPrintedStack *)
Definition source_of_printed (st : str) : str * Z * str :=
  let lines := split_on nl (trim_space st) in
  match lines with
  | [] => ([46], 0%Z, [])      (* unreachable: Split returns at least one element *)
  | l0 :: rest =>
    let '(_, file, line) := parse_entry l0 (match rest with x :: _ => Some x | [] => None end) in
    let fn := if str_eqb l0 unknown_s then [] else snd (function_name l0) in
    (path_base file, line, fn)
  end.

Fixpoint get_one_line_source (e : err) : option (str * Z * str) :=
  let own :=
    match own_stack_of e with
    | Some [] => None
    | Some (f :: _) => Some (source_of_printed (print_stack [f]))
    | None =>
      match safe_details_of e with
      | Some (d0 :: _) => if is_stack_key (type_key e) then Some (source_of_printed d0) else None
      | _ => None
      end
    end in
  match e with
  | Wrap _ _ c | Second _ c _ | OWrap _ _ _ _ c =>
    match get_one_line_source c with
    | Some r => Some r
    | None => own
    end
  | _ => own
  end.

(* report.visitAllMulti *)
Fixpoint visit_all (e : err) : list err :=
  e :: match e with
       | Wrap _ _ c | Second _ c _ | OWrap _ _ _ _ c => visit_all c
       | Multi _ _ cs | OLeaf _ _ _ cs => flat_map visit_all cs
       | _ => []
       end.

Definition last_path_component (s : str) : str :=
  match split_last 47 s with Some (_, b) => b | None => s end.

Record rexc := mkexc { ex_type : str; ex_value : str; ex_module : str; ex_frames : option (list rframe) }.
Record sreport := mkreport { rp_message : str; rp_exceptions : list rexc; rp_types : str }.

Definition first_line (s : str) : str := upto_byte nl s.

Definition redacted_marker_plain : str := [195; 151].

(* state of the composition loop *)
Record comp := mkcomp {
  c_msg : str; c_types : str; c_exc : list rexc (* in order of creation *);
  c_extra : N; c_first_detail : str; c_leaf_type : str; c_sep : str }.

Definition report_layer (module : str) (is_innermost : bool) (st : comp) (layer : err) : comp :=
  let sd := get_safe_details layer in
  let full := sd_orig sd in
  let fm := if str_eqb full (sd_fam sd) then lit "*" else sd_fam sd in
  let types := c_types st ++ full ++ lit " (" ++ fm ++ lit "::" ++ sd_ext sd ++ lit ")" ++ [nl] in
  let short := last_path_component full in
  let leaf_type := if is_innermost then short else c_leaf_type st in
  let msg0 := c_msg st ++ c_sep st in
  let stk := get_reportable_stack layer in
  let '(file, fn, lineno, msg1) :=
    match stk with
    | Some frames =>
      match rev frames with
      | f :: _ =>
        let file := last_path_component (rf_abspath f) in
        (file, rf_function f, rf_line f, msg0 ++ file ++ [colon] ++ dec_of_Z (rf_line f) ++ lit ": ")
      | [] => ([], [], 0%Z, msg0)
      end
    | None => ([], [], 0%Z, msg0)
    end in
  let msg2 := msg1 ++ short in
  match stk with
  | Some frames =>
    let ty0 := (match file with [] => [] | _ => file ++ [colon] ++ dec_of_Z lineno ++ [sp] end) ++
               (match fn with [] => [] | _ => lit "(" ++ fn ++ lit ")" end) in
    let ty1 := match ty0 with [] => lit "<unknown error>" | _ => ty0 end in
    match c_exc st with
    | [] =>
      mkcomp (msg2 ++ lit " (top exception)") types [mkexc ty1 short module (Some frames)]
             (c_extra st) (c_first_detail st) leaf_type [nl]
    | _ =>
      let counter := lit "(" ++ dec_of_N (c_extra st) ++ lit ")" in
      mkcomp (msg2 ++ [sp] ++ counter) types
             (c_exc st ++ [mkexc (counter ++ [sp] ++ ty1) short module (Some frames)])
             (c_extra st + 1) (c_first_detail st) leaf_type [nl]
    end
  | None =>
    match sd_details sd with
    | d :: _ =>
      let d1 := first_line d in
      match d1 with
      | [] => mkcomp msg2 types (c_exc st) (c_extra st) (c_first_detail st) leaf_type [nl]
      | _ =>
        mkcomp (msg2 ++ lit ": " ++ d1) types (c_exc st) (c_extra st)
               (match c_first_detail st with [] => d1 | x => x end) leaf_type [nl]
      end
    | [] => mkcomp msg2 types (c_exc st) (c_extra st) (c_first_detail st) leaf_type [nl]
    end
  end.

Fixpoint report_layers (module : str) (first : bool) (st : comp) (layers : list err) : comp :=
  match layers with
  | [] => st
  | l :: r => report_layers module false (report_layer module first st l) r
  end.

(* BuildSentryReport for a non-nil error *)
Definition build_report (e : err) : sreport :=
  let layers := visit_all e in
  let module := get_domain e in
  let pre := match get_one_line_source e with
             | Some (f, l, _) => f ++ [colon] ++ dec_of_Z l ++ lit ": "
             | None => []
             end in
  let verbose := strip_markers (redact (fmt_red_verbose e)) in
  let first_detail := if str_eqb verbose redacted_marker_plain then [] else first_line verbose in
  let st0 := mkcomp (pre ++ verbose ++ [nl] ++ lit "-- report composition:" ++ [nl]) [] [] 1 first_detail [] [] in
  let st := report_layers module true st0 (rev layers) in
  let msg := if 1 <? c_extra st then c_msg st ++ [nl] ++ lit "(check the extra data payloads)" else c_msg st in
  let excs := rev (c_exc st) in
  let excs' :=
    match rev excs with
    | [] => [mkexc (c_leaf_type st) (c_first_detail st) module None]
    | firstx :: others_rev =>
      let wrapped := negb (str_eqb (ex_value firstx) (c_leaf_type st)) in
      let v0 := c_leaf_type st in
      let v1 := match c_first_detail st with [] => v0 | d => v0 ++ lit ": " ++ d end in
      let v2 := if wrapped then v1 ++ [nl] ++ lit "via " ++ ex_value firstx else v1 in
      rev (mkexc (ex_type firstx) v2 (ex_module firstx) (ex_frames firstx) :: others_rev)
    end in
  mkreport msg excs' (c_types st).
