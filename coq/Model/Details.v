(* SafeDetails() of every type, errbase.GetSafeDetails / GetAllSafeDetails /
   SafeDetailPayload.Fill, type details.  Definitions only. *)
From Errv Require Import Base.Str Redact.Markers Redact.Buffer Model.Err Model.Sem.

(* RedactableString.Redact().StripMarkers() *)
Definition redact_strip (r : str) : str := strip_markers (redact r).

(* errbase.getTypeDetails(err, false): (original type name, family, extension) *)
Definition type_details (e : err) : str * str * str :=
  match e with
  | OLeaf _ _ d _ | OWrap _ _ d _ _ => (dt_orig d, dt_fam d, dt_ext d)
  | _ => (go_full_name e, tm_family (own_tmark e), own_ext e)
  end.

(* errbase.GetTypeKey *)
Definition type_key (e : err) : str := let '(_, f, _) := type_details e in f.

(* SafeDetailPayload *)
Record sdp := mksdp { sd_orig : str; sd_fam : str; sd_ext : str; sd_details : list str }.

(* Fill *)
Definition sdp_fill (p : sdp) (slice : list str) : list str :=
  match sd_details p with
  | [] => slice
  | ds => slice ++ [lit "details for " ++ sd_fam p ++ lit "::" ++ sd_ext p ++ lit ":"]
                ++ List.map (fun d => lit "  " ++ d) ds
  end.

(* contexttags.redactTags *)
Definition redact_tags (tags : list (str * tagval)) : list str :=
  List.map (fun kv => redact_strip (tag_redactable kv)) tags.

(* the SafeDetails() method; None = the type is not a SafeDetailer.
   [sub] gives GetSafeDetails-folding for hidden errors (computed by the
   recursion below). *)
Fixpoint safe_details_of (e : err) : option (list str) :=
  let fill_chain :=
    fix fill_chain (x : err) : list str -> list str :=
      fun acc =>
      let own := match safe_details_of x with
                 | Some ds => ds
                 | None =>
                   match x with
                   | Leaf _ (LPkgFund _ st) => [print_stack st]
                   | Wrap _ (WPkgStack st) _ => [print_stack st]
                   | _ => []
                   end
                 end in
      let '(o, f, xt) := type_details x in
      let acc1 := sdp_fill (mksdp o f xt own) acc in
      match x with
      | Wrap _ _ c | Second _ c _ | OWrap _ _ _ _ c => fill_chain c acc1
      | _ => acc1
      end in
  match e with
  | Leaf _ (LLeafError rm) => Some [redact_strip rm]
  | Leaf _ (LUnimpl _ url det) => Some [url; det]
  | Leaf _ (LUser ULSafeDet _ _ xs) => Some xs
  | Leaf _ _ => None
  | Wrap _ w _ =>
    match w with
    | WStack st => Some [print_stack st]
    | WPrefix rp => Some [redact_strip rp]
    | WNewMsg rm => Some [redact_strip rm]
    | WIssueLink url det => Some [url; det]
    | WTelemetry keys => Some keys
    | WDomain d => Some [d]
    | WContext tags (Some r) => Some r
    | WContext tags None => Some (redact_tags tags)
    | WSafeDetails ds => Some ds
    | WUser UWSafeDet _ xs => Some xs
    | _ => None
    end
  | Second _ _ s => Some (fill_chain s [])
  | Barrier _ _ m =>
    Some (fill_chain m [] ++
          [redact_strip (sprint_pieces [PLit (lit "masked error: "); nested_plus_v (sem m)])])
  | Multi _ _ _ => None
  | OLeaf _ _ d _ => Some (dt_rep d)
  | OWrap _ _ d _ _ => Some (dt_rep d)
  end.

(* errbase.getDetails: SafeDetails() or the printed stack of a StackTraceProvider *)
Definition get_details (e : err) : list str :=
  match safe_details_of e with
  | Some ds => ds
  | None =>
    match e with
    | Leaf _ (LPkgFund _ st) => [print_stack st]
    | Wrap _ (WPkgStack st) _ => [print_stack st]
    | _ => []
    end
  end.

Definition get_safe_details (e : err) : sdp :=
  let '(o, f, x) := type_details e in mksdp o f x (get_details e).

(* GetAllSafeDetails: along the single-cause chain, outermost first *)
Definition get_all_safe_details (e : err) : list sdp := List.map get_safe_details (chain e).
