(* The gRPC interceptors (grpc/middleware): what the server puts into the gRPC
   status and what the client makes of it.  Definitions only. *)
From Errv Require Import Base.Str Redact.Markers Redact.Buffer Model.Err Model.Sem Model.Details Model.Marks
     Model.Codec Model.Access.

(* a gRPC status as it travels: code, message, detail messages *)
Inductive sdetail := DEnc (x : enc) | DOther.
Record gstatus := mkst { gs_code : N; gs_msg : str; gs_details : list sdetail }.

(* status.FromError(err): the error already is a gRPC status error *)
Definition as_status (e : err) : option gstatus :=
  match e with
  | Leaf _ (LGrpcStatus c m) | Leaf _ (LGogoStatus c m) => Some (mkst c m [])
  | _ => None
  end.

(* UnaryServerInterceptor on a non-nil handler error *)
Definition server (e : err) : gstatus :=
  match as_status e with
  | Some st => st
  | None =>
    let code := get_grpc_code e in
    let code := if code =? 0 then 2 else code in         (* an error cannot travel under OK *)
    mkst code (error_text e) [DEnc (encode e)]
  end.

(* what UnaryClientInterceptor returns: the last EncodedError detail decoded, else the status error itself *)
Inductive received := RDecoded (e : err) | RStatus (st : gstatus).

Definition client (p : proc) (st : gstatus) (n : positive) : received :=
  match fold_left (fun acc d => match d with DEnc x => Some x | DOther => acc end) (gs_details st) None with
  | Some x => RDecoded (fst (decode p x n))
  | None => RStatus st
  end.
