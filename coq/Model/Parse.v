(* Reading recipes and cases from S-expressions (the harness writes them). *)
From Errv Require Import Base.Str Base.Sexp Model.Err Model.Codec Model.Build Model.Marks.

Definition opname (x : sexp) : option str :=
  match x with L (A op :: _) => Some op | _ => None end.

Definition parse_verb (x : sexp) : option fverb :=
  match x with
  | A s =>
    if str_eqb s (lit "s") then Some VS
    else if str_eqb s (lit "v") then Some VV
    else if str_eqb s (lit "d") then Some VD
    else if str_eqb s (lit "w") then Some VW
    else if str_eqb s (lit "+v") then Some VPlusV
    else None
  | _ => None
  end.

Definition parse_uleaf (x : sexp) : option uleaf :=
  match x with
  | A s =>
    if str_eqb s (lit "plain") then Some ULPlain
    else if str_eqb s (lit "val") then Some ULVal
    else if str_eqb s (lit "nocmp") then Some ULNoCmp
    else if str_eqb s (lit "istag") then Some ULIsTag
    else if str_eqb s (lit "safedet") then Some ULSafeDet
    else if str_eqb s (lit "safemsg") then Some ULSafeMsg
    else if str_eqb s (lit "hinter") then Some ULHint
    else if str_eqb s (lit "dual") then Some ULDual
    else None
  | _ => None
  end.

Definition parse_uwrap (x : sexp) : option uwrap :=
  match x with
  | A s =>
    if str_eqb s (lit "unwrap") then Some UWUnwrap
    else if str_eqb s (lit "cause") then Some UWCause
    else if str_eqb s (lit "both") then Some UWBoth
    else if str_eqb s (lit "full") then Some UWFull
    else if str_eqb s (lit "empty") then Some UWEmpty
    else if str_eqb s (lit "safedet") then Some UWSafeDet
    else if str_eqb s (lit "as") then Some UWAs
    else if str_eqb s (lit "nocmp") then Some UWNoCmp
    else None
  | _ => None
  end.

Definition parse_tagval (kind : sexp) (v : sexp) : option tagval :=
  match kind, v with
  | A k, A s =>
    if str_eqb k (lit "nil") then Some TVNil
    else if str_eqb k (lit "str") then Some (TVStr s)
    else if str_eqb k (lit "int") then do z <- parse_Z s; Some (TVInt z)
    else if str_eqb k (lit "safe") then Some (TVSafe s)
    else None
  | _, _ => None
  end.

Definition parse_tag (x : sexp) : option (str * tagval) :=
  match x with
  | L [A k; kind; v] => do tv <- parse_tagval kind v; Some (k, tv)
  | _ => None
  end.

Definition parse_tags (x : sexp) : option (list (str * tagval)) :=
  match x with L l => omap parse_tag l | _ => None end.

Definition parse_proc (x : sexp) : option proc :=
  match x with L l => do ks <- get_atoms l; Some (mkproc ks) | _ => None end.

Definition parse_procs (x : sexp) : option (list proc) :=
  match x with L l => omap parse_proc l | _ => None end.

Definition opis (op : str) (s : string) : bool := str_eqb op (lit s).

Fixpoint parse_recipe (x : sexp) {struct x} : option recipe :=
  let plist :=
    fix plist (l : list sexp) : option (list recipe) :=
      match l with
      | [] => Some []
      | y :: r => do a <- parse_recipe y; do b <- plist r; Some (a :: b)
      end in
  let ppiece := fun (y : sexp) =>
    match y with
    | L [A k; A s] => if opis k "lit" then Some (FLit s) else None
    | L [A k; v; a] =>
      do vb <- parse_verb v;
      if opis k "str" then do s <- get_atom a; Some (FStr vb s)
      else if opis k "safestr" then do s <- get_atom a; Some (FSafeStr vb s)
      else if opis k "int" then do z <- get_Z a; Some (FInt vb z)
      else if opis k "safeint" then do z <- get_Z a; Some (FSafeInt vb z)
      else if opis k "err" then do r <- parse_recipe a; Some (FErr vb r)
      else if opis k "xstr" then do s <- get_atom a; Some (FXStr s)
      else if opis k "xsafestr" then do s <- get_atom a; Some (FXSafeStr s)
      else if opis k "xint" then do z <- get_Z a; Some (FXInt z)
      else None
    | _ => None
    end in
  let pfmt := fun (y : sexp) =>
    match y with
    | L l => (fix go (l : list sexp) : option (list fpiece) :=
                match l with
                | [] => Some []
                | z :: r => do a <- ppiece z; do b <- go r; Some (a :: b)
                end) l
    | _ => None
    end in
  match x with
  | L (A op :: args) =>
    match args with
    | [] =>
      if opis op "nil" then Some RNil
      else if opis op "testerror" then Some RTestError
      else None
    | [a] =>
      if opis op "sentinel" then do n <- get_N a; Some (RSentinel n)
      else if opis op "stdnew" then do s <- get_atom a; Some (RStdNew s)
      else if opis op "new" then do s <- get_atom a; Some (RNew s)
      else if opis op "newf" then do f <- pfmt a; Some (RNewf f)
      else if opis op "pkgnew" then do s <- get_atom a; Some (RPkgNew s)
      else if opis op "errno" then do z <- get_Z a; Some (RErrno z)
      else if opis op "foreignerrno" then do z <- get_Z a; Some (RForeignErrno z)
      else if opis op "assertf" then do f <- pfmt a; Some (RAssertf f)
      else if opis op "withstack" then do r <- parse_recipe a; Some (RWithStack r)
      else if opis op "assert" then do r <- parse_recipe a; Some (RAssert r)
      else if opis op "handled" then do r <- parse_recipe a; Some (RHandled r)
      else if opis op "handleassert" then do r <- parse_recipe a; Some (RHandleAssert r)
      else if opis op "join" then match a with L l => do rs <- plist l; Some (RJoin rs) | _ => None end
      else if opis op "stdjoin" then match a with L l => do rs <- plist l; Some (RStdJoin rs) | _ => None end
      else if opis op "fmterrorf" then do f <- pfmt a; Some (RFmtErrorf f)
      else if opis op "pkgstack" then do r <- parse_recipe a; Some (RPkgStack r)
      else None
    | [a; b] =>
      if opis op "grpcstatus" then do c <- get_N a; do m <- get_atom b; Some (RGrpcStatus c m)
      else if opis op "gogostatus" then do c <- get_N a; do m <- get_atom b; Some (RGogoStatus c m)
      else if opis op "wrap" then do r <- parse_recipe a; do s <- get_atom b; Some (RWrap r s)
      else if opis op "wrapf" then do r <- parse_recipe a; do f <- pfmt b; Some (RWrapf r f)
      else if opis op "hintf" then do r <- parse_recipe a; do f <- pfmt b; Some (RHintf r f)
      else if opis op "detailf" then do r <- parse_recipe a; do f <- pfmt b; Some (RDetailf r f)
      else if opis op "withmessage" then do r <- parse_recipe a; do s <- get_atom b; Some (RWithMessage r s)
      else if opis op "withmessagef" then do r <- parse_recipe a; do f <- pfmt b; Some (RWithMessagef r f)
      else if opis op "hint" then do r <- parse_recipe a; do s <- get_atom b; Some (RHint r s)
      else if opis op "detail" then do r <- parse_recipe a; do s <- get_atom b; Some (RDetail r s)
      else if opis op "telemetry" then do r <- parse_recipe a; do ks <- get_strs b; Some (RTelemetry r ks)
      else if opis op "domain" then do r <- parse_recipe a; do s <- get_atom b; Some (RDomain r s)
      else if opis op "tags" then do r <- parse_recipe a; do ts <- parse_tags b; Some (RTags r ts)
      else if opis op "mark" then do r <- parse_recipe a; do q <- parse_recipe b; Some (RMark r q)
      else if opis op "safedetails" then do r <- parse_recipe a; do f <- pfmt b; Some (RSafeDetails r f)
      else if opis op "http" then do r <- parse_recipe a; do z <- get_Z b; Some (RHTTP r z)
      else if opis op "grpc" then do r <- parse_recipe a; do n <- get_N b; Some (RGrpc r n)
      else if opis op "secondary" then do r <- parse_recipe a; do q <- parse_recipe b; Some (RSecondary r q)
      else if opis op "combine" then do r <- parse_recipe a; do q <- parse_recipe b; Some (RCombine r q)
      else if opis op "handledmsg" then do r <- parse_recipe a; do s <- get_atom b; Some (RHandledMsg r s)
      else if opis op "handledmsgf" then do r <- parse_recipe a; do f <- pfmt b; Some (RHandledMsgf r f)
      else if opis op "handledindomain" then do r <- parse_recipe a; do s <- get_atom b; Some (RHandledInDomain r s)
      else if opis op "newassertwrapped" then do r <- parse_recipe a; do f <- pfmt b; Some (RNewAssertWrapped r f)
      else if opis op "pkgmsg" then do r <- parse_recipe a; do s <- get_atom b; Some (RPkgMsg r s)
      else if opis op "syscallerror" then do r <- parse_recipe a; do s <- get_atom b; Some (RSyscallError r s)
      else if opis op "transfer" then do r <- parse_recipe a; do ps <- parse_procs b; Some (RTransfer r ps)
      else None
    | [a; b; c] =>
      if opis op "unimpl" then do u <- get_atom a; do d <- get_atom b; do m <- get_atom c; Some (RUnimpl u d m)
      else if opis op "issuelink" then do r <- parse_recipe a; do u <- get_atom b; do d <- get_atom c; Some (RIssueLink r u d)
      else if opis op "handledindomainmsg" then
        do r <- parse_recipe a; do d <- get_atom b; do m <- get_atom c; Some (RHandledInDomainMsg r d m)
      else if opis op "patherror" then do r <- parse_recipe a; do o <- get_atom b; do p <- get_atom c; Some (RPathError r o p)
      else None
    | [a; b; c; d] =>
      if opis op "uleaf" then
        do u <- parse_uleaf a; do m <- get_atom b; do t <- get_Z c; do xs <- get_strs d; Some (RULeaf u m t xs)
      else if opis op "uwrap" then
        do u <- parse_uwrap a; do r <- parse_recipe b; do m <- get_atom c; do xs <- get_strs d; Some (RUWrap u r m xs)
      else if opis op "linkerror" then
        do r <- parse_recipe a; do o <- get_atom b; do x1 <- get_atom c; do x2 <- get_atom d; Some (RLinkError r o x1 x2)
      else None
    | [a; b; c; d; e5] =>
      if opis op "operror" then
        do r <- parse_recipe a; do o <- get_atom b; do nt <- get_atom c; do x1 <- get_atom d; do x2 <- get_atom e5;
        Some (ROpError r o nt x1 x2)
      else None
    | _ => None
    end
  | _ => None
  end.

(* stacks: ((pc fn file line) ...) ... *)
Definition parse_frame (x : sexp) : option frame :=
  match x with
  | L [pc; A fn; A file; line] => do p <- get_N pc; do l <- get_N line; Some (mkframe p fn file l)
  | _ => None
  end.
Definition parse_stack (x : sexp) : option stack :=
  match x with L l => omap parse_frame l | _ => None end.
Definition parse_stacks (x : sexp) : option (list stack) :=
  match x with L l => omap parse_stack l | _ => None end.

Definition parse_iface (s : str) : option iface_t :=
  if str_eqb s (lit "safedetailer") then Some IfSafeDetailer
  else if str_eqb s (lit "hinter") then Some IfHinter
  else if str_eqb s (lit "timeout") then Some IfTimeout
  else if str_eqb s (lit "unwrapmulti") then Some IfUnwrapMulti
  else if str_eqb s (lit "safeformatter") then Some IfSafeFormatter
  else None.

Definition parse_target (x : sexp) : option as_target :=
  match x with
  | L [A k; A s] =>
    if str_eqb k (lit "type") then Some (ATType s)
    else if str_eqb k (lit "iface") then do i <- parse_iface s; Some (ATIface i)
    else None
  | _ => None
  end.
