(* errbase.EncodeError / DecodeError with every registered encoder and decoder,
   at the level of errorspb messages.  Definitions only.

   [decode] takes the description of the receiving process: which type keys
   have decoders registered there.  Object identities of decoded errors are
   fresh, taken from a counter, except for the singletons Go decoders return. *)
From Errv Require Import Base.Str Redact.Markers Redact.Buffer Model.Err Model.Sem Model.Details.

Definition this_arch : str := lit "linux:amd64".

Definition mk_details (e : err) (rep : list str) (full : option payload) : details :=
  let '(o, f, x) := type_details e in mkdet o f x rep full.

Definition sd_or_nil (e : err) : list str :=
  match safe_details_of e with Some ds => ds | None => [] end.

(* logtags Tag.ValueStr() *)
Definition tag_value_str (v : tagval) : str :=
  match v with
  | TVNil => []
  | TVStr s => s
  | TVInt z => dec_of_Z z
  | TVSafe s => s
  end.

Fixpoint encode (e : err) : enc :=
  match e with
  | OLeaf _ msg d cs => ELeaf msg d (List.map encode cs)
  | OWrap _ pfx d mt c => EWrap (encode c) pfx d mt
  | Leaf _ k =>
    let text := error_text e in
    match k with
    | LLeafError rm => ELeaf text (mk_details e (sd_or_nil e) (Some (PlString rm))) []
    | LPkgFund _ st => ELeaf text (mk_details e [print_stack st] None) []
    | LErrno n =>
      ELeaf text (mk_details e [text]
        (Some (PlErrno (mkerrno n this_arch (errno_is_perm n) (errno_is_exist n)
                                (errno_is_notexist n) (errno_timeout n) (errno_temporary n))))) []
    | LOpaqueErrno m p => ELeaf m (mk_details e [m] (Some (PlErrno p))) []
    | LGrpcStatus c m => ELeaf m (mk_details e [] (Some (PlStatus c m))) []
    | LGogoStatus c m => ELeaf m (mk_details e [] (Some (PlStatus c m))) []
    | LTestError => ELeaf text (mk_details e [] (Some PlTestError)) []
    | _ => ELeaf text (mk_details e (sd_or_nil e) None) []
    end
  | Barrier _ smsg m =>
    ELeaf smsg (mk_details e (sd_or_nil e) (Some (PlEnc (encode m)))) []
  | Multi _ k cs =>
    (* join: registered multi-cause encoder (message = Error() after the repair);
       the others take the generic leaf path: message = Error() *)
    ELeaf (error_text e) (mk_details e [] None) (List.map encode cs)
  | Second _ c s =>
    EWrap (encode c) [] (mk_details e [] (Some (PlEnc (encode s)))) 0
  | Wrap _ w c =>
    let ec := encode c in
    let generic :=
      let '(p, mt) := extract_prefix (error_text e) (error_text c) in
      EWrap ec p (mk_details e (sd_or_nil e) None) mt in
    match w with
    | WPrefix rp => EWrap ec (strip_markers rp) (mk_details e (sd_or_nil e) (Some (PlString rp))) 0
    | WNewMsg rm => EWrap ec (error_text e) (mk_details e (sd_or_nil e) (Some (PlString rm))) 1
    | WHint h => EWrap ec [] (mk_details e [] (Some (PlString h))) 0
    | WDetail d => EWrap ec [] (mk_details e [] (Some (PlString d))) 0
    | WContext tags _ =>
      EWrap ec [] (mk_details e (sd_or_nil e)
                     (Some (PlTags (List.map (fun kv => (fst kv, tag_value_str (snd kv))) tags)))) 0
    | WMark m => EWrap ec [] (mk_details e [] (Some (PlMark (em_msg m) (em_types m)))) 0
    | WHTTP code =>
      EWrap ec [] (mk_details e [lit "HTTP " ++ dec_of_Z code] (Some (PlHTTP (Z.to_N code)))) 0
    | WGrpc code =>
      EWrap ec [] (mk_details e [lit "gRPC " ++ dec_of_N code] (Some (PlGrpc code))) 0
    | WPkgStack st => EWrap ec [] (mk_details e [print_stack st] None) 0
    | WPathError op path =>
      EWrap ec (op ++ [sp] ++ path) (mk_details e [op] (Some (PlStrings [op; path]))) 0
    | WLinkError op old new =>
      EWrap ec (op ++ [sp] ++ old ++ [sp] ++ new) (mk_details e [op] (Some (PlStrings [op; old; new]))) 0
    | WSyscallError sc => EWrap ec sc (mk_details e [] None) 0
    | _ => generic
    end
  end.

(* ---- type keys with registered decoders ---- *)
Definition key_of (t : str * str) : str := full_name t.
Definition k_errorString := lit "errors/*errors.errorString".
Definition k_deadline := lit "context/context.deadlineExceededError".
Definition k_leafError := lib "errutil/*errutil.leafError".
Definition k_barrier := lib "barriers/*barriers.barrierErr".
Definition k_barrierPrev := lib "barriers/*barriers.barrierError".
Definition k_unimpl := lib "issuelink/*issuelink.unimplementedError".
Definition k_errno := lit "syscall/syscall.Errno".
Definition k_opaqueErrno := lib "errbase/*errbase.OpaqueErrno".
Definition k_grpcStatus := lit "google.golang.org/grpc/internal/status/*status.Error".
Definition k_gogoStatus := lit "github.com/gogo/status/*status.statusError".
Definition k_join := lib "join/*join.joinError".
Definition k_withPrefix := lib "errutil/*errutil.withPrefix".
Definition k_withNewMessage := lib "errutil/*errutil.withNewMessage".
Definition k_withHint := lib "hintdetail/*hintdetail.withHint".
Definition k_withDetail := lib "hintdetail/*hintdetail.withDetail".
Definition k_withIssueLink := lib "issuelink/*issuelink.withIssueLink".
Definition k_withTelemetry := lib "telemetrykeys/*telemetrykeys.withTelemetry".
Definition k_withDomain := lib "domains/*domains.withDomain".
Definition k_withContext := lib "contexttags/*contexttags.withContext".
Definition k_withAssert := lib "assert/*assert.withAssertionFailure".
Definition k_withMark := lib "markers/*markers.withMark".
Definition k_withSafeDetails := lib "safedetails/*safedetails.withSafeDetails".
Definition k_withSecondary := lib "secondary/*secondary.withSecondaryError".
Definition k_withHTTP := lib "exthttp/*exthttp.withHTTPCode".
Definition k_withGrpc := lib "extgrpc/*extgrpc.withGrpcCode".
Definition k_pkgMsg := lit "github.com/pkg/errors/*errors.withMessage".
Definition k_pathError := lit "os/*os.PathError".
Definition k_linkError := lit "os/*os.LinkError".
Definition k_syscallError := lit "os/*os.SyscallError".

Definition leaf_decoder_keys : list str :=
  [k_errorString; k_deadline; k_leafError; k_barrier; k_barrierPrev; k_unimpl; k_errno; k_opaqueErrno;
   k_grpcStatus; k_gogoStatus].
Definition multi_decoder_keys : list str := [k_join].
Definition wrap_decoder_keys : list str :=
  [k_withPrefix; k_withNewMessage; k_withHint; k_withDetail; k_withIssueLink; k_withTelemetry;
   k_withDomain; k_withContext; k_withAssert; k_withMark; k_withSafeDetails; k_withSecondary;
   k_withHTTP; k_withGrpc; k_pkgMsg; k_pathError; k_linkError; k_syscallError].

(* a process: the decoder keys it does NOT know (everything else registered in
   the current code is known), so that "all-knowing" is the empty list *)
Record proc := mkproc { p_unknown : list str }.
Definition knows (p : proc) (k : str) : bool := negb (mem_str k (p_unknown p)).
Definition all_knowing : proc := mkproc [].

Definition nth_str (n : nat) (l : list str) : str := nth n l [].

(* counter-threading helpers *)
Definition fresh (n : positive) : oid * positive := (n, Pos.succ n).

Section Decode.
Variable p : proc.

(* decode a list of causes, threading the counter *)
Definition decode_list (dec : enc -> positive -> err * positive) :=
  fix go (l : list enc) (n : positive) : list err * positive :=
    match l with
    | [] => ([], n)
    | x :: r => let '(e, n1) := dec x n in let '(es, n2) := go r n1 in (e :: es, n2)
    end.

Fixpoint decode (x : enc) (n : positive) {struct x} : err * positive :=
  match x with
  | ELeaf msg ((mkdet _ fam _ rep pl) as d) cs =>
    let opaque (n : positive) :=
      let '(es, n1) := decode_list decode cs n in
      let '(i, n2) := fresh n1 in (OLeaf i msg d es, n2) in
    let leaf k (n : positive) := let '(i, n1) := fresh n in (Leaf i k, n1) in
    if mem_str fam leaf_decoder_keys && knows p fam then
      if str_eqb fam k_errorString then leaf (LErrString msg) n
      else if str_eqb fam k_deadline then (Leaf 10%positive LDeadline, n)
      else if str_eqb fam k_leafError then
        match pl with Some (PlString m) => leaf (LLeafError m) n | _ => opaque n end
      else if str_eqb fam k_barrier then
        match pl with
        | Some (PlEnc m) =>
          let '(em, n1) := decode m n in let '(i, n2) := fresh n1 in (Barrier i msg em, n2)
        | _ => opaque n
        end
      else if str_eqb fam k_barrierPrev then
        match pl with
        | Some (PlEnc m) =>
          let '(em, n1) := decode m n in let '(i, n2) := fresh n1 in
          (Barrier i (sprint_pieces [PUnsafe msg]) em, n2)
        | _ => opaque n
        end
      else if str_eqb fam k_unimpl then leaf (LUnimpl msg (nth_str 0 rep) (nth_str 1 rep)) n
      else if str_eqb fam k_errno || str_eqb fam k_opaqueErrno then
        match pl with
        | Some (PlErrno pe) =>
          if str_eqb (en_arch pe) this_arch then leaf (LErrno (en_errno pe)) n
          else leaf (LOpaqueErrno msg pe) n
        | _ => opaque n
        end
      else if str_eqb fam k_grpcStatus then
        (* status.ErrorProto returns nil for the OK code: no error to rebuild *)
        match pl with
        | Some (PlStatus c m) => if c =? 0 then opaque n else leaf (LGrpcStatus c m) n
        | _ => opaque n
        end
      else if str_eqb fam k_gogoStatus then
        match pl with
        | Some (PlStatus c m) => if c =? 0 then opaque n else leaf (LGogoStatus c m) n
        | _ => opaque n
        end
      else opaque n
    else if mem_str fam multi_decoder_keys && knows p fam then
      (* join.Join(causes...): nil when there is no cause, then opaque *)
      let '(es, n1) := decode_list decode cs n in
      match es with
      | [] => let '(i, n2) := fresh n1 in (OLeaf i msg d [], n2)
      | _ => let '(i, n2) := fresh n1 in (Multi i MJoin es, n2)
      end
    else
      (* no decoder: a payload that is itself an error is returned as is *)
      match pl with
      | Some PlTestError => leaf LTestError n
      | _ => opaque n
      end
  | EWrap c msg ((mkdet _ fam _ rep pl) as d) mt =>
    let '(ec, n0) := decode c n in
    let '(i, n1) := fresh n0 in
    let opaque := (OWrap i msg d mt ec, n1) in
    let wrap w := (Wrap i w ec, n1) in
    if mem_str fam wrap_decoder_keys && knows p fam then
      if str_eqb fam k_withPrefix then
        match pl with Some (PlString m) => wrap (WPrefix m) | _ => opaque end
      else if str_eqb fam k_withNewMessage then
        match pl with Some (PlString m) => wrap (WNewMsg m) | _ => opaque end
      else if str_eqb fam k_withHint then
        match pl with Some (PlString m) => wrap (WHint m) | _ => opaque end
      else if str_eqb fam k_withDetail then
        match pl with Some (PlString m) => wrap (WDetail m) | _ => opaque end
      else if str_eqb fam k_withIssueLink then wrap (WIssueLink (nth_str 0 rep) (nth_str 1 rep))
      else if str_eqb fam k_withTelemetry then wrap (WTelemetry rep)
      else if str_eqb fam k_withDomain then
        match rep with d0 :: _ => wrap (WDomain d0) | [] => opaque end
      else if str_eqb fam k_withContext then
        match pl with
        | Some (PlTags tags) =>
          match tags, rep with
          | [], [] => opaque
          | _, _ => wrap (WContext (tags_of (List.map (fun kv => (fst kv, TVStr (snd kv))) tags))
                                   (match rep with [] => None | _ => Some rep end))
          end
        | _ => opaque
        end
      else if str_eqb fam k_withAssert then wrap WAssert
      else if str_eqb fam k_withMark then
        (* a mark holds at least the type of the error it was taken from: a payload
           without types is malformed and falls back to the opaque type *)
        match pl with Some (PlMark m (t :: tys)) => wrap (WMark (mkem m (t :: tys))) | _ => opaque end
      else if str_eqb fam k_withSafeDetails then wrap (WSafeDetails rep)
      else if str_eqb fam k_withSecondary then
        match pl with
        | Some (PlEnc s) =>
          let '(es, n2) := decode s n1 in (Second i ec es, n2)
        | _ => opaque
        end
      else if str_eqb fam k_withHTTP then
        match pl with Some (PlHTTP code) => wrap (WHTTP (Z.of_N code)) | _ => opaque end
      else if str_eqb fam k_withGrpc then
        match pl with Some (PlGrpc code) => wrap (WGrpc code) | _ => opaque end
      else if str_eqb fam k_pkgMsg then wrap (WPkgMsg msg)
      else if str_eqb fam k_pathError then
        match pl with
        | Some (PlStrings (op :: path :: _)) => wrap (WPathError op path)
        | _ => opaque
        end
      else if str_eqb fam k_linkError then
        match pl with
        | Some (PlStrings (op :: old :: new :: _)) => wrap (WLinkError op old new)
        | _ => opaque
        end
      else if str_eqb fam k_syscallError then wrap (WSyscallError msg)
      else opaque
    else opaque
  end.
End Decode.

(* one network hop: encode at the sender, decode at process p *)
Definition hop (p : proc) (e : err) (n : positive) : err * positive :=
  decode p (encode e) n.

Fixpoint transfer (ps : list proc) (e : err) (n : positive) : err * positive :=
  match ps with
  | [] => (e, n)
  | p :: r => let '(e1, n1) := hop p e n in transfer r e1 n1
  end.
