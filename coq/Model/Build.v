(* Recipes: programs that build errors through the public API, and their
   interpretation.  Definitions only.  [None] is Go's nil error. *)
From Errv Require Import Base.Str Redact.Markers Redact.Buffer
     Model.Err Model.Sem Model.Details Model.Marks Model.Codec.

Inductive fverb := VS | VV | VD | VW | VPlusV.

Inductive recipe :=
| RNil
| RSentinel (n : N)
| RStdNew (msg : str)                       (* stdlib errors.New *)
| RNew (msg : str)                          (* errors.New *)
| RNewf (f : list fpiece)                   (* errors.Newf / Errorf *)
| RPkgNew (msg : str)                       (* pkg/errors.New *)
| RErrno (n : Z)
| RUnimpl (url det msg : str)               (* errors.UnimplementedError *)
| RAssertf (f : list fpiece)                (* errors.AssertionFailedf *)
| RGrpcStatus (code : N) (msg : str)        (* grpc status.Error *)
| RGogoStatus (code : N) (msg : str)
| RTestError
| RULeaf (u : uleaf) (msg : str) (tagn : Z) (xs : list str)
| RWrap (r : recipe) (msg : str)            (* errors.Wrap *)
| RWrapf (r : recipe) (f : list fpiece)     (* errors.Wrapf *)
| RWithMessage (r : recipe) (msg : str)
| RWithMessagef (r : recipe) (f : list fpiece)
| RWithStack (r : recipe)
| RHint (r : recipe) (h : str)
| RHintf (r : recipe) (f : list fpiece)     (* errors.WithHintf: the hint is fmt.Sprintf(format, args...) *)
| RDetailf (r : recipe) (f : list fpiece)   (* errors.WithDetailf *)
| RDetail (r : recipe) (d : str)
| RIssueLink (r : recipe) (url det : str)
| RTelemetry (r : recipe) (keys : list str)
| RDomain (r : recipe) (d : str)            (* errors.WithDomain *)
| RTags (r : recipe) (tags : list (str * tagval))
| RAssert (r : recipe)                      (* errors.WithAssertionFailure *)
| RMark (r : recipe) (ref : recipe)
| RSafeDetails (r : recipe) (f : list fpiece)
| RHTTP (r : recipe) (code : Z)
| RGrpc (r : recipe) (code : N)
| RSecondary (r : recipe) (s : recipe)      (* errors.WithSecondaryError *)
| RCombine (r : recipe) (s : recipe)        (* errors.CombineErrors *)
| RHandled (r : recipe)                     (* errors.Handled / Opaque *)
| RHandledMsg (r : recipe) (msg : str)      (* errors.HandledWithMessage *)
| RHandledMsgf (r : recipe) (f : list fpiece) (* barriers.HandledWithMessagef *)
| RHandledInDomain (r : recipe) (d : str)
| RHandledInDomainMsg (r : recipe) (d : str) (msg : str)
| RHandleAssert (r : recipe)                (* errors.HandleAsAssertionFailure *)
| RNewAssertWrapped (r : recipe) (f : list fpiece) (* errors.NewAssertionErrorWithWrappedErrf *)
| RJoin (rs : list recipe)                  (* errors.Join *)
| RStdJoin (rs : list recipe)               (* stdlib errors.Join *)
| RFmtErrorf (f : list fpiece)              (* fmt.Errorf: 0, 1 or several %w *)
| RPkgMsg (r : recipe) (msg : str)          (* pkg/errors.WithMessage *)
| RPkgStack (r : recipe)                    (* pkg/errors.WithStack *)
| RPathError (r : recipe) (op path : str)
| RLinkError (r : recipe) (op old new : str)
| RSyscallError (r : recipe) (sc : str)
| ROpError (r : recipe) (op net src addr : str)   (* &net.OpError{Op, Net, Source, Addr, Err} *)
| RForeignErrno (n : Z)                     (* a syscall.Errno received from a process on another platform *)
| RUWrap (u : uwrap) (r : recipe) (msg : str) (xs : list str)
| RTransfer (r : recipe) (ps : list proc)   (* encode/decode through these processes *)
with fpiece :=
| FLit (s : str)
| FStr (v : fverb) (s : str)                (* plain string argument *)
| FSafeStr (v : fverb) (s : str)            (* redact.Safe(string) *)
| FInt (v : fverb) (z : Z)
| FSafeInt (v : fverb) (z : Z)
| FErr (v : fverb) (r : recipe)
(* arguments without a verb (always last): printed as %!(EXTRA type=value, ...) *)
| FXStr (s : str)
| FXSafeStr (s : str)
| FXInt (z : Z).

Record benv := mkbenv { be_stacks : list stack }.
Record bstate := mkbs { bs_oid : positive; bs_stk : nat }.

Definition fresh_oid (s : bstate) : oid * bstate :=
  (bs_oid s, mkbs (Pos.succ (bs_oid s)) (bs_stk s)).
Definition fresh_stack (env : benv) (s : bstate) : stack * bstate :=
  (nth (bs_stk s) (be_stacks env) [], mkbs (bs_oid s) (S (bs_stk s))).

Definition mk_wrap (w : wlayer) (e : err) (s : bstate) : err * bstate :=
  let '(i, s1) := fresh_oid s in (Wrap i w e, s1).
Definition mk_leaf (k : leafk) (s : bstate) : err * bstate :=
  let '(i, s1) := fresh_oid s in (Leaf i k, s1).

(* withstack.WithStackDepth on a non-nil error *)
Definition with_stack (env : benv) (e : err) (s : bstate) : err * bstate :=
  let '(st, s1) := fresh_stack env s in mk_wrap (WStack st) e s1.

(* fmt's %v / %s of an error value with the plain fmt package *)
Definition plain_v (e : err) : str :=
  if lib_format e then fmt_plain_short e else error_text e.

(* a built format call: the redact pieces, the plain pieces, the first %w
   argument, every error argument in order *)
Record built_fmt := mkbf {
  bf_pieces : list piece;      (* for redact.Sprintf / HelperForErrorf *)
  bf_plain : str;              (* for fmt.Sprintf / fmt.Errorf *)
  bf_wrapped : list err;       (* non-nil %w arguments in order *)
  bf_errs : list err;          (* all non-nil error arguments in order *)
  bf_nw : nat }.               (* number of %w verbs, nil arguments included *)

Definition bf_empty := mkbf [] [] [] [] 0.

Definition bf_add (b : built_fmt) (p : piece) (pl : str) : built_fmt :=
  mkbf (bf_pieces b ++ [p]) (bf_plain b ++ pl) (bf_wrapped b) (bf_errs b) (bf_nw b).

(* format == "" && len(args) == 0 *)
Definition is_fmt_empty (f : list fpiece) : bool :=
  forallb (fun p => match p with FLit [] => true | _ => false end) f.

Section Build.
Variable env : benv.

Fixpoint build (r : recipe) (s : bstate) {struct r} : option err * bstate :=
  let build_list :=
    fix build_list (rs : list recipe) (s : bstate) : list err * bstate :=
      match rs with
      | [] => ([], s)
      | x :: rest =>
        let '(o, s1) := build x s in
        let '(es, s2) := build_list rest s1 in
        (match o with Some e => e :: es | None => es end, s2)
      end in
  let build_fmt :=
    fix build_fmt (f : list fpiece) (acc : built_fmt) (s : bstate) : built_fmt * bstate :=
      match f with
      | [] => (acc, s)
      | p :: rest =>
        match p with
        | FLit l => build_fmt rest (bf_add acc (PLit l) l) s
        | FStr _ x => build_fmt rest (bf_add acc (PUnsafe x) x) s
        | FSafeStr _ x => build_fmt rest (bf_add acc (PSafe x) x) s
        | FInt _ z => build_fmt rest (bf_add acc (PUnsafe (dec_of_Z z)) (dec_of_Z z)) s
        | FSafeInt _ z => build_fmt rest (bf_add acc (PSafe (dec_of_Z z)) (dec_of_Z z)) s
        | FXStr _ | FXSafeStr _ | FXInt _ =>
          (* the run of extra arguments, up to the end of the call *)
          let one := fun (q : fpiece) =>
            match q with
            | FXStr x => ([PLit (lit "string="); PUnsafe x], lit "string=" ++ x)
            | FXSafeStr x => ([PLit (lit "redact.safeWrapper="); PSafe x], lit "redact.safeWrapper=" ++ x)
            | FXInt z => ([PLit (lit "int="); PUnsafe (dec_of_Z z)], lit "int=" ++ dec_of_Z z)
            | _ => ([], [])
            end in
          let extras := (fix go (l : list fpiece) (first : bool) : list piece * str :=
            match l with
            | [] => ([PLit (lit ")")], lit ")")
            | q :: r =>
              let '(ps, pl) := one q in
              let '(rs, rl) := go r false in
              ((if first then [] else [PLit (lit ", ")]) ++ ps ++ rs, (if first then [] else lit ", ") ++ pl ++ rl)
            end) (p :: rest) true in
          (mkbf (bf_pieces acc ++ PLit (lit "%!(EXTRA ") :: fst extras) (bf_plain acc ++ lit "%!(EXTRA " ++ snd extras)
                (bf_wrapped acc) (bf_errs acc) (bf_nw acc), s)
        | FErr v x =>
          let '(o, s1) := build x s in
          match o with
          | None =>
            (* a nil interface argument: printArg prints <nil> for %v and the
               bad-verb notation otherwise, in the surrounding (safe) mode *)
            let t := match v with
                     | VV | VPlusV => lit "<nil>"
                     | VS => lit "%!s(<nil>)"
                     | VW => lit "%!w(<nil>)"
                     | VD => lit "%!d(<nil>)"
                     end in
            let acc0 := bf_add acc (PLit t) t in
            let acc1 := mkbf (bf_pieces acc0) (bf_plain acc0) (bf_wrapped acc0) (bf_errs acc0)
                             (match v with VW => S (bf_nw acc0) | _ => bf_nw acc0 end) in
            build_fmt rest acc1 s1
          | Some e =>
            let piece := match v with VPlusV => nested_plus_v (sem e) | _ => nested_v (sem e) end in
            let pl := match v with VPlusV => (if lib_format e then fmt_plain_verbose e else error_text e)
                                 | _ => plain_v e end in
            let acc1 := mkbf (bf_pieces acc ++ [piece]) (bf_plain acc ++ pl)
                             (match v with VW => bf_wrapped acc ++ [e] | _ => bf_wrapped acc end)
                             (bf_errs acc ++ [e])
                             (match v with VW => S (bf_nw acc) | _ => bf_nw acc end) in
            build_fmt rest acc1 s1
          end
        end
      end in
  (* secondary.WithSecondaryError for each error argument *)
  let add_secondaries :=
    fix add_sec (es : list err) (e : err) (s : bstate) : err * bstate :=
      match es with
      | [] => (e, s)
      | x :: rest => let '(i, s1) := fresh_oid s in add_sec rest (Second i e x) s1
      end in
  (* errutil.NewWithDepthf *)
  let newf := fun (f : list fpiece) (s : bstate) =>
    let '(b, s1) := build_fmt f bf_empty s in
    let msg := sprint_pieces (bf_pieces b) in
    let '(e0, s2) := match bf_wrapped b with
                     | w :: _ => mk_wrap (WNewMsg msg) w s1
                     | [] => mk_leaf (LLeafError msg) s1
                     end in
    let '(e1, s3) := add_secondaries (bf_errs b) e0 s2 in
    with_stack env e1 s3 in
  (* errutil.WrapWithDepthf on a non-nil error *)
  let wrapf := fun (e : err) (f : list fpiece) (b : built_fmt) (s1 : bstate) =>
    let '(e0, s2) := if is_fmt_empty f then (e, s1)
                     else mk_wrap (WPrefix (sprint_pieces (bf_pieces b))) e s1 in
    let '(e1, s3) := add_secondaries (bf_errs b) e0 s2 in
    with_stack env e1 s3 in
  (* barriers.Handled on a non-nil error *)
  let handled := fun (e : err) (s : bstate) =>
    let '(i, s1) := fresh_oid s in (Barrier i (sprint_pieces [nested_v (sem e)]) e, s1) in
  let some := fun (x : err * bstate) => (Some (fst x), snd x) in
  (* apply [k] to the built sub-recipe unless it is nil *)
  let on := fun (r : recipe) (s : bstate) (k : err -> bstate -> err * bstate) =>
    let '(o, s1) := build r s in
    match o with Some e => some (k e s1) | None => (None, s1) end in
  (* same, for constructors taking a format call: Go evaluates the arguments
     (building error arguments) before the constructor sees a nil error *)
  let on_f := fun (r : recipe) (f : list fpiece) (s : bstate)
                  (k : err -> built_fmt -> bstate -> err * bstate) =>
    let '(o, s1) := build r s in
    let '(b, s2) := build_fmt f bf_empty s1 in
    match o with Some e => some (k e b s2) | None => (None, s2) end in
  match r with
  | RNil => (None, s)
  | RSentinel n => (sentinel n, s)
  | RStdNew msg => some (mk_leaf (LErrString msg) s)
  | RNew msg =>
    let '(e, s1) := mk_leaf (LLeafError (sprint_pieces [PSafe msg])) s in some (with_stack env e s1)
  | RNewf f => some (newf f s)
  | RPkgNew msg => let '(st, s1) := fresh_stack env s in some (mk_leaf (LPkgFund msg st) s1)
  | RErrno n => some (mk_leaf (LErrno n) s)
  | RUnimpl url det msg => some (mk_leaf (LUnimpl msg url det) s)
  | RAssertf f => let '(e, s1) := newf f s in some (mk_wrap WAssert e s1)
  (* status.Error(codes.OK, _) is nil *)
  | RGrpcStatus c m => if c =? 0 then (None, s) else some (mk_leaf (LGrpcStatus c m) s)
  | RGogoStatus c m => if c =? 0 then (None, s) else some (mk_leaf (LGogoStatus c m) s)
  | RTestError => some (mk_leaf LTestError s)
  | RULeaf u m t xs => some (mk_leaf (LUser u m t xs) s)
  | RWrap r msg =>
    on r s (fun e s1 =>
      let '(e0, s2) := match msg with
                       | [] => (e, s1)
                       | _ => mk_wrap (WPrefix (sprint_pieces [PSafe msg])) e s1
                       end in
      with_stack env e0 s2)
  | RWrapf r f => on_f r f s (fun e b s1 => wrapf e f b s1)
  | RWithMessage r msg => on r s (mk_wrap (WPrefix (sprint_pieces [PSafe msg])))
  | RWithMessagef r f =>
    on_f r f s (fun e b s2 => mk_wrap (WPrefix (sprint_pieces (bf_pieces b))) e s2)
  | RWithStack r => on r s (with_stack env)
  | RHint r h => on r s (mk_wrap (WHint h))
  | RHintf r f => on_f r f s (fun e b s1 => mk_wrap (WHint (bf_plain b)) e s1)
  | RDetailf r f => on_f r f s (fun e b s1 => mk_wrap (WDetail (bf_plain b)) e s1)
  | RDetail r d => on r s (mk_wrap (WDetail d))
  | RIssueLink r url det => on r s (mk_wrap (WIssueLink url det))
  | RTelemetry r keys => on r s (mk_wrap (WTelemetry keys))
  | RDomain r d => on r s (mk_wrap (WDomain d))
  | RTags r tags =>
    on r s (fun e s1 => match tags with [] => (e, s1) | _ => mk_wrap (WContext (tags_of tags) None) e s1 end)
  | RAssert r => on r s (mk_wrap WAssert)
  | RMark r ref =>
    let '(o, s1) := build r s in
    let '(ox, s2) := build ref s1 in
    match o, ox with
    | Some e, Some x => some (mk_wrap (WMark (get_mark x)) e s2)
    | Some e, None => (Some e, s2)       (* Mark(err, nil) panics in Go; never generated *)
    | None, _ => (None, s2)
    end
  | RSafeDetails r f =>
    on_f r f s (fun e b s2 =>
      if is_fmt_empty f then (e, s2) else
      mk_wrap (WSafeDetails [redact_strip (sprint_pieces (bf_pieces b))]) e s2)
  | RHTTP r code => on r s (mk_wrap (WHTTP code))
  | RGrpc r code => on r s (mk_wrap (WGrpc code))
  | RSecondary r x =>
    let '(o, s1) := build r s in
    let '(ox, s2) := build x s1 in
    match o, ox with
    | Some e, Some a => let '(i, s3) := fresh_oid s2 in (Some (Second i e a), s3)
    | _, _ => (o, s2)
    end
  | RCombine r x =>
    let '(o, s1) := build r s in
    let '(ox, s2) := build x s1 in
    match o, ox with
    | None, _ => (ox, s2)
    | Some e, Some a => let '(i, s3) := fresh_oid s2 in (Some (Second i e a), s3)
    | Some e, None => (o, s2)
    end
  | RHandled r => on r s handled
  | RHandledMsg r msg =>
    on r s (fun e s1 => let '(i, s2) := fresh_oid s1 in (Barrier i (sprint_pieces [PUnsafe msg]) e, s2))
  | RHandledMsgf r f =>
    on_f r f s (fun e b s2 =>
      let '(i, s3) := fresh_oid s2 in (Barrier i (sprint_pieces (bf_pieces b)) e, s3))
  | RHandledInDomain r d =>
    on r s (fun e s1 => let '(b, s2) := handled e s1 in mk_wrap (WDomain d) b s2)
  | RHandledInDomainMsg r d msg =>
    on r s (fun e s1 =>
      let '(i, s2) := fresh_oid s1 in
      mk_wrap (WDomain d) (Barrier i (sprint_pieces [PUnsafe msg]) e) s2)
  | RHandleAssert r =>
    on r s (fun e s1 =>
      let '(b, s2) := handled e s1 in
      let '(w, s3) := with_stack env b s2 in
      mk_wrap WAssert w s3)
  | RNewAssertWrapped r f =>
    on_f r f s (fun e bf s1 =>
      let '(b, s2) := handled e s1 in
      let '(w, s3) := wrapf b f bf s2 in
      mk_wrap WAssert w s3)
  | RJoin rs =>
    let '(es, s1) := build_list rs s in
    match es with
    | [] => (None, s1)
    | _ => let '(i, s2) := fresh_oid s1 in some (with_stack env (Multi i MJoin es) s2)
    end
  | RStdJoin rs =>
    let '(es, s1) := build_list rs s in
    match es with
    | [] => (None, s1)
    | _ => let '(i, s2) := fresh_oid s1 in (Some (Multi i MStdJoin es), s2)
    end
  | RFmtErrorf f =>
    let '(b, s1) := build_fmt f bf_empty s in
    let '(i, s2) := fresh_oid s1 in
    (* the number of %w verbs decides the type; nil arguments are dropped
       from *fmt.wrapErrors and leave a *fmt.wrapError without a cause *)
    match bf_nw b with
    | O => (Some (Leaf i (LErrString (bf_plain b))), s2)
    | S O => match bf_wrapped b with
             | w :: _ => (Some (Wrap i (WFmtWrap (bf_plain b)) w), s2)
             | [] => (Some (Leaf i (LFmtWrapNil (bf_plain b))), s2)
             end
    | _ => (Some (Multi i (MFmtWraps (bf_plain b)) (bf_wrapped b)), s2)
    end
  | RPkgMsg r msg => on r s (mk_wrap (WPkgMsg msg))
  | RPkgStack r =>
    on r s (fun e s1 => let '(st, s2) := fresh_stack env s1 in mk_wrap (WPkgStack st) e s2)
  | RPathError r op path => on r s (mk_wrap (WPathError op path))
  | RLinkError r op old new => on r s (mk_wrap (WLinkError op old new))
  | RSyscallError r sc => on r s (mk_wrap (WSyscallError sc))
  | ROpError r op net src addr => on r s (mk_wrap (WOpError op net src addr))
  | RForeignErrno n =>
    (* the sender's platform: another OS for odd errno values, the same OS on another CPU for even ones *)
    some (mk_leaf (LOpaqueErrno (errno_text n)
             (mkerrno n (if Z.odd n then lit "plan9:mips" else lit "linux:mips64")
                      (errno_is_perm n) (errno_is_exist n) (errno_is_notexist n)
                      (errno_timeout n) (errno_temporary n))) s)
  | RUWrap u r msg xs => on r s (mk_wrap (WUser u msg xs))
  | RTransfer r ps =>
    on r s (fun e s1 =>
      let '(e1, n1) := transfer ps e (bs_oid s1) in (e1, mkbs n1 (bs_stk s1)))
  end.
End Build.

Definition bs_init : bstate := mkbs first_fresh_oid 0.
(* a second, disjoint range of identities for independently built references *)
Definition bs_init_ref : bstate := mkbs 1000000%positive 0.
