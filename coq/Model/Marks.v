(* markers.Is / IsAny / Mark / getMark / equalMarks, errutil.As, markers.If,
   HasType.  Definitions only.

   The Go code runs two loops over the single-cause chain (identity / Is-method
   / multi-cause recursion first, marks second).  Both loops only ever return
   true and have no effects, so their result is the disjunction over the chain
   of the four tests below; [is_] is that disjunction written as one structural
   recursion.  Panics are modelled separately ([iface_eq]). *)
From Errv Require Import Base.Str Redact.Markers Model.Err Model.Sem.

Definition emark_eqb (a b : emark) : bool :=
  str_eqb (em_msg a) (em_msg b) && list_eqb tmark_eqb (em_types a) (em_types b).

(* equalMarks of the code (after the repair: lengths are compared) *)
Definition equal_marks (m1 m2 : emark) : bool :=
  str_eqb (em_msg m1) (em_msg m2) &&
  Nat.eqb (List.length (em_types m1)) (List.length (em_types m2)) &&
  (fix go (a b : list tmark) : bool :=
     match a, b with
     | x :: a', y :: b' => tmark_eqb x y && go a' b'
     | _, _ => true
     end) (em_types m1) (em_types m2).

Definition get_mark (e : err) : emark :=
  match e with
  | Wrap _ (WMark m) _ => m
  | _ => mkem (error_text e) (ns_tmarks (sem e))
  end.

(* reflect.TypeOf(x).Comparable() *)
Definition comparable (e : err) : bool :=
  match e with Leaf _ (LUser ULNoCmp _ _ _) | Wrap _ (WUser UWNoCmp _ _) _ => false | _ => true end.

Definition same_go_type (a b : err) : bool :=
  str_eqb (go_full_name a) (go_full_name b).

(* value of Go's [c == r] on two interface values when it does not panic *)
Definition go_eq (c r : err) : bool :=
  match c, r with
  | Leaf _ LDeadline, Leaf _ LDeadline => true
  (* *errorspb.TestError points to a zero-size struct: the Go runtime gives all
     such allocations the same address, so any two of them are == *)
  | Leaf _ LTestError, Leaf _ LTestError => true
  | Leaf _ (LErrno a), Leaf _ (LErrno b) => Z.eqb a b
  | Leaf _ (LUser ULVal m t _), Leaf _ (LUser ULVal m' t' _) => str_eqb m m' && Z.eqb t t'
  | Leaf _ LDeadline, _ | _, Leaf _ LDeadline => false
  | Leaf _ (LErrno _), _ | _, Leaf _ (LErrno _) => false
  | Leaf _ (LUser ULVal _ _ _), _ | _, Leaf _ (LUser ULVal _ _ _) => false
  | Leaf _ (LUser ULNoCmp _ _ _), _ | _, Leaf _ (LUser ULNoCmp _ _ _) => false
  | Wrap _ (WUser UWNoCmp _ _) _, _ | _, Wrap _ (WUser UWNoCmp _ _) _ => false
  | _, _ => Pos.eqb (node_oid c) (node_oid r) && same_go_type c r
  end.

(* Go's == on interfaces: panics when both hold the same non-comparable type *)
Inductive outcome (A : Type) := Ok (a : A) | Panic.
Arguments Ok {A} a.
Arguments Panic {A}.

Definition iface_eq (c r : err) : outcome bool :=
  if same_go_type c r && negb (comparable r) then Panic else Ok (go_eq c r).

(* the guarded comparison of Is / IsAny *)
Definition guarded_eq (c r : err) : outcome bool :=
  if comparable r then iface_eq c r else Ok false.

(* an Is(error) bool method of c says yes *)
Definition is_method (c r : err) : bool :=
  match c with
  | Leaf _ (LErrno n) =>
    match r with
    | Leaf i (LErrString _) =>
      (Pos.eqb i oid_permission && errno_is_perm n) ||
      (Pos.eqb i oid_exist && errno_is_exist n) ||
      (Pos.eqb i oid_notexist && errno_is_notexist n)
    | _ => false
    end
  | Leaf _ (LOpaqueErrno _ p) =>
    match r with
    | Leaf i (LErrString _) =>
      (Pos.eqb i oid_permission && en_perm p) ||
      (Pos.eqb i oid_exist && en_exist p) ||
      (Pos.eqb i oid_notexist && en_notexist p)
    | _ => false
    end
  | Leaf _ (LGrpcStatus c1 m1) =>
    match r with Leaf _ (LGrpcStatus c2 m2) => N.eqb c1 c2 && str_eqb m1 m2 | _ => false end
  | Leaf _ (LUser ULIsTag _ t _) =>
    match r with Leaf _ (LUser ULIsTag _ t' _) => Z.eqb t t' | _ => false end
  | _ => false
  end.

Definition own_match (c r : err) : bool :=
  (comparable r && go_eq c r) || is_method c r.

Definition mark_match (c r : err) : bool := equal_marks (get_mark c) (get_mark r).

(* markers.Is(e, r) for non-nil e and r *)
Fixpoint is_ (e r : err) : bool :=
  own_match e r || mark_match e r ||
  match e with
  | Wrap _ _ c | Second _ c _ | OWrap _ _ _ _ c => is_ c r
  | Multi _ _ cs | OLeaf _ _ _ cs => existsb (fun m => is_ m r) cs
  | _ => false
  end.

(* with nil on either side *)
Definition is_opt (e r : option err) : bool :=
  match r with
  | None => match e with None => true | Some _ => false end
  | Some r' => match e with None => false | Some e' => is_ e' r' end
  end.

Fixpoint somes {A} (l : list (option A)) : list A :=
  match l with [] => [] | Some x :: r => x :: somes r | None :: r => somes r end.

(* markers.IsAny *)
Fixpoint is_any (e : err) (refs : list err) : bool :=
  existsb (fun r => own_match e r || mark_match e r) refs ||
  match e with
  | Wrap _ _ c | Second _ c _ | OWrap _ _ _ _ c => is_any c refs
  | Multi _ _ cs | OLeaf _ _ _ cs => existsb (fun m => is_any m refs) cs
  | _ => false
  end.

Definition is_any_opt (e : option err) (refs : list (option err)) : bool :=
  match e with
  | None => existsb (fun r => match r with None => true | Some _ => false end) refs
  | Some e' => is_any e' (somes refs)
  end.

(* markers.Mark *)
Definition mark_ (i : oid) (e : err) (r : err) : err := Wrap i (WMark (get_mark r)) e.

(* markers.If: first node of the single-cause chain satisfying the predicate *)
Fixpoint if_ {A} (pred : err -> option A) (e : err) : option A :=
  match pred e with
  | Some v => Some v
  | None =>
    match e with
    | Wrap _ _ c | Second _ c _ | OWrap _ _ _ _ c => if_ pred c
    | _ => None
    end
  end.

(* markers.HasType(err, reference): reflect.TypeOf equality somewhere in the chain *)
Definition has_type (e r : err) : bool :=
  match if_ (fun c => if same_go_type c r then Some tt else None) e with
  | Some _ => true | None => false
  end.

(* ---- errutil.As ---- *)
(* interface targets the harness uses *)
Inductive iface_t :=
| IfSafeDetailer       (* errbase.SafeDetailer *)
| IfHinter             (* hintdetail.ErrorHinter *)
| IfTimeout            (* interface{ Timeout() bool } *)
| IfUnwrapMulti        (* interface{ Unwrap() []error } *)
| IfSafeFormatter.     (* errbase.SafeFormatter *)

Inductive as_target :=
| ATType (full_name : str)      (* *T / T target: exact dynamic type *)
| ATIface (i : iface_t).

Definition implements (e : err) (i : iface_t) : bool :=
  match i with
  | IfSafeDetailer =>
    match e with
    | Leaf _ (LLeafError _) | Leaf _ (LUnimpl _ _ _) | Leaf _ (LUser ULSafeDet _ _ _) => true
    | Wrap _ (WStack _) _ | Wrap _ (WPrefix _) _ | Wrap _ (WNewMsg _) _ | Wrap _ (WIssueLink _ _) _
    | Wrap _ (WTelemetry _) _ | Wrap _ (WDomain _) _ | Wrap _ (WContext _ _) _
    | Wrap _ (WSafeDetails _) _ | Wrap _ (WUser UWSafeDet _ _) _ => true
    | Second _ _ _ | Barrier _ _ _ | OLeaf _ _ _ _ | OWrap _ _ _ _ _ => true
    | _ => false
    end
  | IfHinter =>
    match e with
    | Leaf _ (LUnimpl _ _ _) | Leaf _ (LUser ULHint _ _ _) => true
    | Wrap _ (WHint _) _ | Wrap _ (WIssueLink _ _) _ | Wrap _ WAssert _ => true
    | _ => false
    end
  | IfTimeout =>
    match e with
    | Leaf _ LDeadline | Leaf _ (LErrno _) | Leaf _ (LOpaqueErrno _ _) => true
    | Wrap _ (WPathError _ _) _ | Wrap _ (WSyscallError _) _ | Wrap _ (WOpError _ _ _ _) _ => true
    | _ => false
    end
  | IfUnwrapMulti =>
    match e with
    | Multi _ _ _ => true
    | OLeaf _ _ _ (_ :: _) => true
    | _ => false
    end
  | IfSafeFormatter =>
    match e with
    | Leaf _ (LLeafError _) | Leaf _ (LUnimpl _ _ _) => true
    | Leaf _ _ => false
    | Wrap _ (WHint _) _ | Wrap _ (WDetail _) _ => false
    | Wrap _ w _ => match wrap_body w (st_init false false) with Some _ => true | None => false end
    | Second _ _ _ | Barrier _ _ _ | OLeaf _ _ _ _ | OWrap _ _ _ _ _ => true
    | Multi _ MJoin _ => true
    | Multi _ _ _ => false
    end
  end.

Definition assignable (e : err) (t : as_target) : bool :=
  match t with
  | ATType n => str_eqb (go_full_name e) n
  | ATIface i => implements e i
  end.

Definition first_some {A B} (f : A -> option B) : list A -> option B :=
  fix go (l : list A) : option B :=
    match l with
    | [] => None
    | x :: r => match f x with Some y => Some y | None => go r end
    end.

(* an As(interface{}) bool method of the node accepts the target: the value it stores there.
   The one type of the universe with such a method is the harness' *ut.WAs, which
   fills a *ut.Val target. *)
Definition as_method (e : err) (t : as_target) : option err :=
  match e, t with
  | Wrap _ (WUser UWAs msg _) _, ATType n =>
    if str_eqb n (lit "verifharness/ut/ut.Val") then Some (Leaf 1%positive (LUser ULVal msg 503%Z [])) else None
  | _, _ => None
  end.

(* errutil.As: the value assigned to the target: the node itself when its type is
   assignable, else what the node's own As method stores, else look further *)
Fixpoint as_ (e : err) (t : as_target) : option err :=
  if assignable e t then Some e else
  match as_method e t with Some v => Some v | None =>
  match e with
  | Wrap _ _ c | Second _ c _ | OWrap _ _ _ _ c => as_ c t
  | Multi _ _ cs | OLeaf _ _ _ cs => first_some (fun m => as_ m t) cs
  | _ => None
  end end.
