(* The standard library's errors.Is / As / Unwrap (Go 1.23) and
   github.com/pkg/errors.Cause, transcribed.  Definitions only. *)
From Errv Require Import Base.Str Model.Err Model.Sem Model.Marks.

(* does the Go type have an Unwrap() error method? *)
Definition has_unwrap (e : err) : bool :=
  match e with
  | Wrap _ (WUser UWCause _ _) _ => false
  | Wrap _ _ _ | Second _ _ _ | OWrap _ _ _ _ _ => true
  | Leaf _ (LFmtWrapNil _) | Leaf _ (LUser ULDual _ _ _) => true        (* returns nil *)
  | _ => false
  end.

(* does it have a Cause() error method? *)
Definition has_cause (e : err) : bool :=
  match e with
  | Wrap _ (WFmtWrap _) _ | Wrap _ (WPathError _ _) _ | Wrap _ (WLinkError _ _ _) _
  | Wrap _ (WSyscallError _) _ | Wrap _ (WOpError _ _ _ _) _ => false
  | Wrap _ (WUser u _ _) _ => match u with UWCause | UWBoth => true | _ => false end
  | Wrap _ _ _ | Second _ _ _ | OWrap _ _ _ _ _ => true
  | _ => false
  end.

(* errors.Unwrap *)
Definition std_unwrap (e : err) : option err :=
  if has_unwrap e then unwrap_once e else None.

(* errors.Is for non-nil arguments *)
Fixpoint std_is (e r : err) : bool :=
  (comparable r && go_eq e r) || is_method e r ||
  match e with
  | Wrap _ _ c | Second _ c _ | OWrap _ _ _ _ c => if has_unwrap e then std_is c r else false
  | Multi _ _ cs | OLeaf _ _ _ cs => existsb (fun m => std_is m r) cs
  | _ => false
  end.

Definition std_is_opt (e r : option err) : bool :=
  match e, r with
  | Some e', Some r' => std_is e' r'
  | None, None => true
  | _, _ => false
  end.

(* errors.As *)
Fixpoint std_as (e : err) (t : as_target) : option err :=
  if assignable e t then Some e else
  match as_method e t with Some v => Some v | None =>
  match e with
  | Wrap _ _ c | Second _ c _ | OWrap _ _ _ _ c => if has_unwrap e then std_as c t else None
  | Multi _ _ cs | OLeaf _ _ _ cs => first_some (fun m => std_as m t) cs
  | _ => None
  end end.

(* pkg/errors.Cause *)
Fixpoint pkg_cause (e : err) : err :=
  match e with
  | Wrap _ _ c | Second _ c _ | OWrap _ _ _ _ c => if has_cause e then pkg_cause c else e
  | _ => e
  end.
