(* Extraction of the executable model for the correspondence check.
   ExtrOcamlBasic only: bool/option/list/prod/unit map to OCaml's, every
   number type (positive, N, Z, nat) stays the extracted datatype. *)
From Coq Require Import ExtrOcamlBasic.
From Errv Require Import Base.Str Base.Sexp Model.Run Model.Run2.
Extraction "runner.ml" run_case2.
