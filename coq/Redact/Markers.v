(* Model of github.com/cockroachdb/redact v1.1.5, internal/markers and
   internal/escape, at byte level.  Executable definitions only. *)
From Errv Require Import Base.Str.

(* ‹ = E2 80 B9, › = E2 80 BA, × = C3 97, escape mark = '?' *)
Definition m_start : str := [226; 128; 185].
Definition m_end   : str := [226; 128; 186].
Definition m_redacted : str := m_start ++ [195; 151] ++ m_end.
Definition qmark : N := 63.

Inductive tok := TOpen | TClose | TB (b : N).

(* Byte-level marker recognition.  Go's regexps work on runes; since E2 is
   never a continuation byte a marker can only be recognised where its three
   bytes start, so rune-level and byte-level scanning coincide. *)
Fixpoint tokenize (s : str) : list tok :=
  match s with
  | [] => []
  | a :: t =>
    match t with
    | b :: c :: r =>
      if (a =? 226) && (b =? 128) && (c =? 185) then TOpen :: tokenize r
      else if (a =? 226) && (b =? 128) && (c =? 186) then TClose :: tokenize r
      else TB a :: tokenize t
    | _ => TB a :: tokenize t
    end
  end.

Definition untok1 (t : tok) : str :=
  match t with TOpen => m_start | TClose => m_end | TB b => [b] end.

Definition untok (l : list tok) : str := flat_map untok1 l.

Definition is_marker (t : tok) : bool :=
  match t with TB _ => false | _ => true end.

(* RedactableString.StripMarkers: ReStripMarkers = "[‹›]" replaced by "" *)
Definition strip_markers (s : str) : str :=
  untok (filter (fun t => negb (is_marker t)) (tokenize s)).

(* EscapeMarkers: every marker rune replaced by '?' *)
Definition escape_markers (s : str) : str :=
  untok (List.map (fun t => if is_marker t then TB qmark else t) (tokenize s)).

(* RedactableString.Redact: ReStripSensitive = "‹[^‹›]*›" replaced by "‹×›",
   leftmost match first, non-overlapping.  [pend] holds, in reverse, the tokens
   read since a tentative opening marker ([None] = not inside a candidate). *)
Fixpoint redact_toks (l : list tok) (pend : option (list tok)) : list tok :=
  match l with
  | [] => match pend with Some p => rev p | None => [] end
  | t :: r =>
    match pend with
    | None =>
      match t with
      | TOpen => redact_toks r (Some [TOpen])
      | _ => t :: redact_toks r None
      end
    | Some p =>
      match t with
      | TOpen => rev p ++ redact_toks r (Some [TOpen])
      | TClose => TOpen :: TB 195 :: TB 151 :: TClose :: redact_toks r None
      | TB _ => redact_toks r (Some (t :: p))
      end
    end
  end.

Definition redact (s : str) : str := untok (redact_toks (tokenize s) None).

Definition has_markers (s : str) : bool := existsb is_marker (tokenize s).

(* ---- UTF-8: utf8.DecodeLastRune(b) returning (RuneError, 1) ---- *)
Definition is_cont (b : N) : bool := (128 <=? b) && (b <? 192).
Definition rune_start (b : N) : bool := negb (is_cont b).
Definition in_rng (lo hi b : N) : bool := (lo <=? b) && (b <=? hi).

Definition valid2 (l c : N) : bool := in_rng 194 223 l && is_cont c.
Definition valid3 (l c1 c2 : N) : bool :=
  is_cont c2 &&
  ( ((l =? 224) && in_rng 160 191 c1)
 || ((in_rng 225 236 l || in_rng 238 239 l) && is_cont c1)
 || ((l =? 237) && in_rng 128 159 c1)).
Definition valid4 (l c1 c2 c3 : N) : bool :=
  is_cont c2 && is_cont c3 &&
  ( ((l =? 240) && in_rng 144 191 c1)
 || (in_rng 241 243 l && is_cont c1)
 || ((l =? 244) && in_rng 128 143 c1)).

(* argument: the string REVERSED (last byte first) *)
Definition last_rune_invalid_rev (r : str) : bool :=
  match r with
  | [] => false
  | b0 :: r1 =>
    if b0 <? 128 then false else
    match r1 with
    | [] => true
    | b1 :: r2 =>
      if rune_start b1 then negb (valid2 b1 b0) else
      match r2 with
      | [] => true
      | b2 :: r3 =>
        if rune_start b2 then negb (valid3 b2 b1 b0) else
        match r3 with
        | [] => true
        | b3 :: _ => if rune_start b3 then negb (valid4 b3 b2 b1 b0) else true
        end
      end
    end
  end.

Definition last_rune_invalid (s : str) : bool := last_rune_invalid_rev (rev s).

(* ---- escape.InternalEscapeBytes(b, startLoc, breakNewLines, strip=false) ----
   [acc] is the output so far, REVERSED; it starts as the reversed validated
   prefix b[:startLoc].  The loop below walks the pending part b[startLoc:]. *)
Definition rstart : str := rev m_start.
Definition rend : str := rev m_end.

Fixpoint skip_nls (s : str) (acc : str) : str * str :=
  match s with
  | c :: r => if c =? nl then skip_nls r (c :: acc) else (s, acc)
  | [] => (s, acc)
  end.

(* fuel = length of the pending part: every iteration consumes >= 1 byte *)
Fixpoint escape_loop (fuel : nat) (s : str) (acc : str) (brk : bool) : str :=
  match fuel with
  | O => acc
  | S f =>
    match s with
    | [] => acc
    | a :: t =>
      if brk && (a =? nl) then
        let acc1 := match drop_prefix rstart acc with
                    | Some acc' => acc'
                    | None => rend ++ acc
                    end in
        let '(rest, acc2) := skip_nls s acc1 in
        escape_loop f rest (rstart ++ acc2) brk
      else
        match t with
        | b :: c :: r =>
          if (a =? 226) && (b =? 128) && ((c =? 185) || (c =? 186))
          then escape_loop f r (qmark :: acc) brk
          else escape_loop f t (a :: acc) brk
        | _ => escape_loop f t (a :: acc) brk
        end
    end
  end.

(* whole = validated ++ pending; result is the new whole buffer *)
Definition escape_from (validated pending : str) (brk : bool) : str :=
  let acc := escape_loop (List.length pending) pending (frev validated) brk in
  let acc' := if last_rune_invalid_rev (frev pending ++ frev validated)
              then qmark :: acc else acc in
  frev acc'.

(* rfmt.EscapeBytes(s): "‹" + escape(s, breakNewLines) + "›" *)
Definition escape_bytes (s : str) : str :=
  escape_from m_start s true ++ m_end.
