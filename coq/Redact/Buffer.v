(* Model of redact/internal/buffer.Buffer and of the part of the rfmt printer
   that the errors library drives: printing a list of "pieces". *)
From Errv Require Import Base.Str Redact.Markers.

Inductive omode := UnsafeEscaped | SafeEscaped | SafeRaw.

Definition omode_eqb (a b : omode) : bool :=
  match a, b with
  | UnsafeEscaped, UnsafeEscaped | SafeEscaped, SafeEscaped | SafeRaw, SafeRaw => true
  | _, _ => false
  end.

(* buf = bvalid ++ bpend ; validUntil = length bvalid *)
Record rbuf := mkbuf { bvalid : str; bpend : str; bmode : omode; bopen : bool }.

Definition buf_empty : rbuf := mkbuf [] [] UnsafeEscaped false.
Definition whole (b : rbuf) : str := bvalid b ++ bpend b.

(* validUntil := len(buf) *)
Definition validate_all (b : rbuf) : rbuf := mkbuf (whole b) [] (bmode b) (bopen b).

Definition start_redactable (b : rbuf) : rbuf :=
  let w := whole b in
  match drop_suffix m_end w with
  | Some w' => mkbuf w' [] (bmode b) true
  | None => mkbuf (w ++ m_start) [] (bmode b) true
  end.

(* startWrite: opens the marker when writing unsafe data; validUntil=len(buf) *)
Definition start_write (b : rbuf) : rbuf :=
  match bmode b with
  | UnsafeEscaped => if bopen b then b else start_redactable b
  | _ => b
  end.

Definition buf_write (b : rbuf) (s : str) : rbuf :=
  let b1 := start_write b in
  mkbuf (bvalid b1) (bpend b1 ++ s) (bmode b1) (bopen b1).

(* endRedactable; does not touch validUntil: callers validate afterwards.
   Works on the whole buffer, keeps the validated/pending split only when
   nothing was removed from the validated part (callers validate anyway). *)
Definition end_redactable (b : rbuf) : rbuf :=
  let w := whole b in
  match w with
  | [] => b
  | _ =>
    match drop_suffix m_start w with
    | Some w' => mkbuf w' [] (bmode b) false
    | None => mkbuf (w ++ m_end) [] (bmode b) false
    end
  end.

Definition escape_to_end (b : rbuf) (brk : bool) : rbuf :=
  mkbuf (escape_from (bvalid b) (bpend b) brk) [] (bmode b) (bopen b).

Definition buf_finalize (b : rbuf) : rbuf :=
  let b1 := match bmode b with
            | SafeRaw => validate_all b
            | UnsafeEscaped => escape_to_end b true
            | SafeEscaped => escape_to_end b false
            end in
  if bopen b1 then validate_all (end_redactable b1) else b1.

Definition set_mode (b : rbuf) (m : omode) : rbuf :=
  if omode_eqb (bmode b) m then b else
  let b1 := match bmode b with
            | UnsafeEscaped => escape_to_end b true
            | SafeEscaped => escape_to_end b false
            | SafeRaw => b
            end in
  let b2 := if bopen b1 then end_redactable b1 else b1 in
  let b3 := validate_all b2 in
  mkbuf (bvalid b3) (bpend b3) m (bopen b3).

(* TakeRedactableString *)
Definition buf_take (b : rbuf) : str := whole (buf_finalize b).

(* ---- pieces ---- *)
Inductive piece :=
| PLit (s : str)        (* format literal / already in the surrounding mode *)
| PUnsafe (s : str)     (* plain argument *)
| PSafe (s : str)       (* redact.Safe(...) argument, SafeString, safe types *)
| PRaw (s : str).       (* RedactableString / RedactableBytes argument, or the
                           rendering of a nested error (already redactable) *)

(* one argument printed by printArg from mode [SafeEscaped] (doPrint/doPrintf set it) *)
Definition print_piece (b : rbuf) (p : piece) : rbuf :=
  match p with
  | PLit s => buf_write b s
  | PUnsafe s => set_mode (buf_write (set_mode b UnsafeEscaped) s) (bmode b)
  | PSafe s => set_mode (buf_write (set_mode b SafeEscaped) s) (bmode b)
  | PRaw s => set_mode (buf_write (set_mode b SafeRaw) s) (bmode b)
  end.

(* doPrintf / doPrint body on an existing buffer *)
Definition print_pieces (b : rbuf) (ps : list piece) : rbuf :=
  fold_left print_piece ps (set_mode b SafeEscaped).

(* redact.Sprintf / Sprint / HelperForErrorf result *)
Definition sprint_pieces (ps : list piece) : str :=
  buf_take (print_pieces buf_empty ps).

(* pp.Print / pp.Printf on a SafePrinter whose buffer is [b]: the mode is
   restored afterwards (defer p.buf.SetMode(p.buf.GetMode())) *)
Definition pp_print (b : rbuf) (ps : list piece) : rbuf :=
  set_mode (print_pieces b ps) (bmode b).
