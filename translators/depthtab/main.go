// depthtab regenerates coq/Gen/DepthTable.v from the source of
// cockroachdb/errors: for every top-level function that (transitively) reaches
// runtime.Callers or runtime.Caller it records the forwarding calls and the
// depth argument of each as an affine form a*depth + b of the function's own
// `depth` parameter.  Anything it does not recognise becomes a CUnknown callee,
// which no theorem accepts (fail closed).
package main

import (
	"encoding/json"
	"fmt"
	"go/ast"
	"go/parser"
	"go/token"
	"os"
	"path/filepath"
	"sort"
	"strconv"
	"strings"
)

const modPath = "github.com/cockroachdb/errors"

type edge struct {
	Callee string // "runtime.Callers", "runtime.Caller", "<pkg>.<Func>", or "?<why>"
	A, B   int
	Pos    string
}

type fn struct {
	Name     string
	Pkg      string
	HasDepth bool
	DepthIdx int
	Exported bool
	Edges    []edge
	decl     *ast.FuncDecl
	imports  map[string]string // local name -> import path
}

func main() {
	root := os.Args[1]
	outV := os.Args[2]
	outJSON := os.Args[3]
	fset := token.NewFileSet()
	funcs := map[string]*fn{}
	var pkgDirs []string
	filepath.Walk(root, func(p string, info os.FileInfo, err error) error {
		if err != nil {
			return nil
		}
		if info.IsDir() {
			if strings.HasPrefix(info.Name(), ".") || info.Name() == "testdata" {
				return filepath.SkipDir
			}
			pkgDirs = append(pkgDirs, p)
		}
		return nil
	})
	for _, dir := range pkgDirs {
		rel, _ := filepath.Rel(root, dir)
		pkgPath := modPath
		if rel != "." {
			pkgPath = modPath + "/" + filepath.ToSlash(rel)
		}
		files, _ := filepath.Glob(filepath.Join(dir, "*.go"))
		for _, f := range files {
			if strings.HasSuffix(f, "_test.go") || strings.HasSuffix(f, ".pb.go") {
				continue
			}
			src, err := os.ReadFile(f)
			if err != nil {
				continue
			}
			// honour build tags crudely: skip files guarded by the verification tag
			if strings.Contains(string(src[:min(len(src), 400)]), "go:build verif") {
				continue
			}
			af, err := parser.ParseFile(fset, f, src, 0)
			if err != nil {
				fmt.Fprintln(os.Stderr, "parse error", f, err)
				os.Exit(1)
			}
			imports := map[string]string{}
			for _, im := range af.Imports {
				path, _ := strconv.Unquote(im.Path.Value)
				name := path[strings.LastIndex(path, "/")+1:]
				if im.Name != nil {
					name = im.Name.Name
				}
				imports[name] = path
			}
			for _, d := range af.Decls {
				fd, ok := d.(*ast.FuncDecl)
				if !ok || fd.Recv != nil || fd.Body == nil {
					continue
				}
				x := &fn{Name: pkgPath + "." + fd.Name.Name, Pkg: pkgPath, Exported: fd.Name.IsExported(), decl: fd, imports: imports, DepthIdx: -1}
				idx := 0
				for _, p := range fd.Type.Params.List {
					for _, n := range p.Names {
						if n.Name == "depth" {
							x.HasDepth = true
							x.DepthIdx = idx
						}
						idx++
					}
					if len(p.Names) == 0 {
						idx++
					}
				}
				funcs[x.Name] = x
			}
		}
	}
	// fixpoint: the set of functions that reach runtime.Callers / Caller
	reach := map[string]bool{"runtime.Callers": true, "runtime.Caller": true}
	calleeName := func(f *fn, call *ast.CallExpr) string {
		switch fun := call.Fun.(type) {
		case *ast.Ident:
			return f.Pkg + "." + fun.Name
		case *ast.SelectorExpr:
			if id, ok := fun.X.(*ast.Ident); ok {
				if path, ok := f.imports[id.Name]; ok {
					return path + "." + fun.Sel.Name
				}
			}
		}
		return ""
	}
	for changed := true; changed; {
		changed = false
		for _, f := range funcs {
			if reach[f.Name] {
				continue
			}
			ast.Inspect(f.decl.Body, func(n ast.Node) bool {
				if call, ok := n.(*ast.CallExpr); ok {
					if c := calleeName(f, call); c != "" && reach[c] {
						reach[f.Name] = true
						changed = true
					}
				}
				return true
			})
		}
	}
	affine := func(e ast.Expr) (a, b int, ok bool) {
		var ev func(e ast.Expr) (int, int, bool)
		ev = func(e ast.Expr) (int, int, bool) {
			switch x := e.(type) {
			case *ast.ParenExpr:
				return ev(x.X)
			case *ast.Ident:
				if x.Name == "depth" {
					return 1, 0, true
				}
			case *ast.BasicLit:
				if x.Kind == token.INT {
					v, err := strconv.Atoi(x.Value)
					return 0, v, err == nil
				}
			case *ast.BinaryExpr:
				a1, b1, ok1 := ev(x.X)
				a2, b2, ok2 := ev(x.Y)
				if ok1 && ok2 {
					switch x.Op {
					case token.ADD:
						return a1 + a2, b1 + b2, true
					case token.SUB:
						return a1 - a2, b1 - b2, true
					}
				}
			}
			return 0, 0, false
		}
		return ev(e)
	}
	for _, f := range funcs {
		if !reach[f.Name] {
			continue
		}
		var walk func(n ast.Node, inLit bool)
		walk = func(n ast.Node, inLit bool) {
			ast.Inspect(n, func(m ast.Node) bool {
				if m == nil {
					return false
				}
				if lit, ok := m.(*ast.FuncLit); ok && m != n {
					walk(lit.Body, true)
					return false
				}
				call, ok := m.(*ast.CallExpr)
				if !ok {
					return true
				}
				c := calleeName(f, call)
				if c == "" || !reach[c] {
					return true
				}
				pos := fset.Position(call.Pos())
				ps := fmt.Sprintf("%s:%d", filepath.Base(pos.Filename), pos.Line)
				if inLit {
					f.Edges = append(f.Edges, edge{Callee: "?call inside a function literal", Pos: ps})
					return true
				}
				argIdx := 0
				if g, ok := funcs[c]; ok {
					if !g.HasDepth {
						f.Edges = append(f.Edges, edge{Callee: c, A: 0, B: 0, Pos: ps})
						return true
					}
					argIdx = g.DepthIdx
				}
				if argIdx >= len(call.Args) {
					f.Edges = append(f.Edges, edge{Callee: "?missing depth argument", Pos: ps})
					return true
				}
				a, b, ok := affine(call.Args[argIdx])
				if !ok || (a != 0 && !f.HasDepth) {
					f.Edges = append(f.Edges, edge{Callee: "?depth argument not affine in depth", Pos: ps})
					return true
				}
				f.Edges = append(f.Edges, edge{Callee: c, A: a, B: b, Pos: ps})
				return true
			})
		}
		walk(f.decl.Body, false)
	}
	var names []string
	for n := range funcs {
		if reach[n] {
			names = append(names, n)
		}
	}
	sort.Strings(names)
	var sb strings.Builder
	sb.WriteString("(* GENERATED by translators/depthtab from /repo on every check -- do not edit. *)\n")
	sb.WriteString("From Coq Require Import String ZArith List.\nFrom Errv Require Import Model.Depth.\nImport ListNotations.\nOpen Scope string_scope.\nOpen Scope Z_scope.\n\n")
	sb.WriteString("Definition depth_table : list fn_entry := [\n")
	short := func(n string) string { return strings.TrimPrefix(strings.TrimPrefix(n, modPath+"/"), modPath) }
	type jentry struct {
		Name     string `json:"name"`
		HasDepth bool   `json:"has_depth"`
		Prim     string `json:"prim"`
	}
	var exported []jentry
	for i, n := range names {
		f := funcs[n]
		var es []string
		for _, e := range f.Edges {
			var c string
			switch {
			case e.Callee == "runtime.Callers":
				c = "CCallers"
			case e.Callee == "runtime.Caller":
				c = "CCaller"
			case strings.HasPrefix(e.Callee, "?"):
				c = fmt.Sprintf("CUnknown %q", e.Callee[1:]+" at "+e.Pos)
			default:
				c = fmt.Sprintf("CFn %q", short(e.Callee))
			}
			es = append(es, fmt.Sprintf("(%s, %d, %d)", c, e.A, e.B))
		}
		sep := ";"
		if i == len(names)-1 {
			sep = ""
		}
		fmt.Fprintf(&sb, "  mkfn %q %v %v [%s]%s\n", short(n), f.HasDepth, f.Exported, strings.Join(es, "; "), sep)
		if f.Exported {
			exported = append(exported, jentry{Name: short(n), HasDepth: f.HasDepth})
		}
	}
	sb.WriteString("].\n")
	old, _ := os.ReadFile(outV)
	if string(old) != sb.String() {
		os.MkdirAll(filepath.Dir(outV), 0o755)
		os.WriteFile(outV, []byte(sb.String()), 0o644)
	}
	jb, _ := json.MarshalIndent(exported, "", " ")
	os.WriteFile(outJSON, jb, 0o644)
}

func min(a, b int) int {
	if a < b {
		return a
	}
	return b
}
