module depthtab

go 1.19
