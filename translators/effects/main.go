// effects regenerates coq/Gen/Effects.v from the source of cockroachdb/errors:
// for every function of the repository reachable (class-hierarchy call graph)
// from the read-only observer API it lists the instructions that write state
// shared between goroutines: stores through a pointer rooted in a package-level
// variable or in a field of an error value, map updates and channel sends on
// such state, and sync/atomic operations on it.  Writes to objects allocated in
// the function itself, and to the per-call scratch structures of the formatting
// engine (which are allocated by the observer for the duration of one call) are
// not shared.  Anything unresolved is reported as ECallUnknown (fail closed).
package main

import (
	"fmt"
	"go/token"
	"go/types"
	"os"
	"path/filepath"
	"sort"
	"strings"

	"golang.org/x/tools/go/callgraph"
	"golang.org/x/tools/go/callgraph/cha"
	"golang.org/x/tools/go/packages"
	"golang.org/x/tools/go/ssa"
	"golang.org/x/tools/go/ssa/ssautil"
)

const modPath = "github.com/cockroachdb/errors"

// the read-only observer API (C18): formatting, redacted formatting, encoding,
// Is/As, safe details, hints/details, report building and the other accessors
var roots = []string{
	"errbase.FormatError", "errbase.Formattable", "errbase.FormatRedactableError", "errbase.EncodeError",
	"errbase.GetSafeDetails", "errbase.GetAllSafeDetails", "errbase.UnwrapOnce", "errbase.UnwrapAll", "errbase.UnwrapMulti",
	"errbase.GetTypeKey", "errbase.GetTypeMark",
	"markers.Is", "markers.IsAny", "markers.If", "markers.HasType", "markers.HasInterface",
	"errutil.As",
	"hintdetail.GetAllHints", "hintdetail.FlattenHints", "hintdetail.GetAllDetails", "hintdetail.FlattenDetails",
	"issuelink.GetAllIssueLinks", "issuelink.HasIssueLink", "issuelink.IsIssueLink", "issuelink.HasUnimplementedError", "issuelink.IsUnimplementedError",
	"telemetrykeys.GetTelemetryKeys", "domains.GetDomain", "domains.NotInDomain", "contexttags.GetContextTags",
	"assert.HasAssertionFailure", "assert.IsAssertionFailure", "exthttp.GetHTTPCode", "extgrpc.GetGrpcCode",
	"oserror.IsPermission", "oserror.IsExist", "oserror.IsNotExist", "oserror.IsTimeout",
	"report.BuildSentryReport", "withstack.GetReportableStackTrace", "withstack.GetOneLineSource",
	"safedetails.Safe",
}

// per-call scratch types of the formatting engine: allocated by the observer
// itself for one call, never reachable from an error value
var scratchTypes = map[string]bool{
	modPath + "/errbase.state": true, modPath + "/errbase.printer": true, modPath + "/errbase.safePrinter": true,
	modPath + "/errbase.formatEntry": true, modPath + "/errbase.errorFormatter": true,
}

var errorIface = types.Universe.Lookup("error").Type().Underlying().(*types.Interface)

func isErrorType(t types.Type) bool {
	if t == nil {
		return false
	}
	if types.Implements(t, errorIface) {
		return true
	}
	if _, ok := t.(*types.Pointer); !ok {
		return types.Implements(types.NewPointer(t), errorIface)
	}
	return false
}

func typeName(t types.Type) string {
	for {
		if p, ok := t.(*types.Pointer); ok {
			t = p.Elem()
			continue
		}
		break
	}
	if n, ok := t.(*types.Named); ok && n.Obj().Pkg() != nil {
		return n.Obj().Pkg().Path() + "." + n.Obj().Name()
	}
	return t.String()
}

// classify where an address comes from
type origin int

const (
	oLocal origin = iota
	oScratch
	oShared
	oUnknown
)

// byType: classification of a pointer we know nothing else about
func byType(t types.Type, what string) (origin, string) {
	if isErrorType(t) {
		return oShared, what + " of error type " + typeName(t)
	}
	if scratchTypes[typeName(t)] {
		return oScratch, typeName(t)
	}
	return oUnknown, what
}

// rootOf classifies the memory a pointer-like value designates
func rootOf(v ssa.Value, seen map[ssa.Value]bool) (origin, string) {
	if seen[v] {
		return oLocal, ""
	}
	seen[v] = true
	switch x := v.(type) {
	case *ssa.Alloc, *ssa.MakeSlice, *ssa.MakeMap, *ssa.MakeChan, *ssa.MakeInterface, *ssa.MakeClosure, *ssa.Const:
		return oLocal, ""
	case *ssa.FieldAddr:
		o, w := rootOf(x.X, seen)
		if o == oLocal || o == oShared {
			return o, w
		}
		st := x.X.Type()
		if isErrorType(st) {
			return oShared, "field of error type " + typeName(st)
		}
		if scratchTypes[typeName(st)] {
			return oScratch, typeName(st)
		}
		return o, w
	case *ssa.IndexAddr:
		return rootOf(x.X, seen)
	case *ssa.Slice:
		return rootOf(x.X, seen)
	case *ssa.ChangeType:
		return rootOf(x.X, seen)
	case *ssa.Convert:
		return rootOf(x.X, seen)
	case *ssa.UnOp:
		if x.Op == token.MUL {
			// a pointer / slice / map loaded from memory: we only know its type, and where it was kept
			o, w := rootOf(x.X, map[ssa.Value]bool{})
			if o == oShared || o == oScratch {
				// kept in a shared error / in the per-call scratch state of the formatter
				return o, w
			}
			bo, bw := byType(x.Type(), "value loaded from memory")
			if o == oLocal && bo == oUnknown {
				// kept in an object this call allocated itself (a local variable captured by a
				// closure, a freshly built event): owned by this call
				return oLocal, ""
			}
			return bo, bw
		}
		return rootOf(x.X, seen)
	case *ssa.Phi:
		worst, why := oLocal, ""
		for _, e := range x.Edges {
			o, w := rootOf(e, seen)
			if o > worst {
				worst, why = o, w
			}
		}
		return worst, why
	case *ssa.Global:
		return oShared, "package-level variable " + x.Name()
	case *ssa.Parameter:
		return byType(x.Type(), "parameter "+x.Name())
	case *ssa.FreeVar:
		// the cell of a variable of the enclosing function
		return oLocal, ""
	case *ssa.Call:
		if b, ok := x.Call.Value.(*ssa.Builtin); ok && b.Name() == "append" && len(x.Call.Args) > 0 {
			// append may return (and write into) the backing array of its first argument
			return rootOf(x.Call.Args[0], seen)
		}
		// result of another call: fresh (a constructor ...), unless it can hand out memory of an error
		// value it was given -- a slice / map / pointer result of a call that takes an error
		switch x.Type().Underlying().(type) {
		case *types.Slice, *types.Map, *types.Pointer:
			args := x.Call.Args
			if x.Call.IsInvoke() {
				args = append([]ssa.Value{x.Call.Value}, args...)
			}
			for _, a := range args {
				if isErrorType(a.Type()) {
					return oShared, "result of a call on an error value (" + typeName(a.Type()) + ")"
				}
			}
		}
		return oLocal, ""
	case *ssa.Extract, *ssa.TypeAssert, *ssa.Lookup, *ssa.Index, *ssa.BinOp, *ssa.Next, *ssa.Range, *ssa.Field:
		return byType(v.Type(), "derived value")
	}
	return oUnknown, fmt.Sprintf("%T", v)
}

// writes through parameters that are not error values: the object belongs to
// the caller.  Each one below was checked by reading every call site in the
// repository: the argument is created by the caller for that one call.
var callerOwned = map[string]string{
	"(*errbase.printer).enhanceArgs:args":      "the variadic slice of one Print/Printf call (no call site passes a stored slice with ...)",
	"(*errbase.safePrinter).enhanceArgs:args":  "the variadic slice of one Print/Printf call",
	"hintdetail.getAllHintsInternal:seen":      "map created by GetAllHints for one call",
	"report.reverseExceptionOrder:ex":          "slice built by BuildSentryReport in the same call",
	"(*errbase.SafeDetailPayload).Fill:slice":  "accumulator: both call sites (barrierErr.SafeDetails, withSecondaryError.SafeDetails) pass a slice declared in the same call",
	"hintdetail.getAllHintsInternal:hints":     "accumulator created (nil) by GetAllHints for one call and threaded through the recursion",
	"hintdetail.getAllDetailsInternal:details": "accumulator created (nil) by GetAllDetails for one call and threaded through the recursion",
}

var inPlaceMutators = map[string]bool{
	"sort.Strings": true, "sort.Ints": true, "sort.Float64s": true, "sort.Slice": true, "sort.SliceStable": true,
	"sort.Sort": true, "sort.Stable": true, "math/rand.Shuffle": true,
}

func owned(f *ssa.Function, why string) bool {
	if !strings.HasPrefix(why, "parameter ") {
		return false
	}
	name := strings.ReplaceAll(f.String(), modPath+"/", "")
	_, ok := callerOwned[name+":"+strings.TrimPrefix(why, "parameter ")]
	return ok
}

func main() {
	root := os.Args[1]
	outV := os.Args[2]
	cfg := &packages.Config{Mode: packages.LoadAllSyntax, Dir: root, Tests: false,
		Env: append(os.Environ(), "GOFLAGS=-mod=mod", "GOPROXY=off", "GOSUMDB=off", "GOTOOLCHAIN=local", "CGO_ENABLED=0")}
	pkgs, err := packages.Load(cfg, "./...")
	if err != nil {
		fmt.Fprintln(os.Stderr, "load:", err)
		os.Exit(1)
	}
	if packages.PrintErrors(pkgs) > 0 {
		os.Exit(1)
	}
	prog, _ := ssautil.AllPackages(pkgs, ssa.InstantiateGenerics)
	prog.Build()
	cg := cha.CallGraph(prog)
	inRepo := func(f *ssa.Function) bool {
		return f != nil && f.Pkg != nil && strings.HasPrefix(f.Pkg.Pkg.Path(), modPath) &&
			!strings.HasSuffix(f.Pkg.Pkg.Path(), "errorspb") && !strings.Contains(f.Pkg.Pkg.Path(), "/internal") &&
			!strings.HasSuffix(f.Pkg.Pkg.Path(), "fmttests") && !strings.HasSuffix(f.Pkg.Pkg.Path(), "testutils")
	}
	byName := map[string]*ssa.Function{}
	for f := range ssautil.AllFunctions(prog) {
		if inRepo(f) && f.Parent() == nil && f.Signature.Recv() == nil {
			byName[strings.TrimPrefix(f.Pkg.Pkg.Path(), modPath+"/")+"."+f.Name()] = f
		}
	}
	var work []*ssa.Function
	var missing []string
	for _, r := range roots {
		if f, ok := byName[r]; ok {
			work = append(work, f)
		} else {
			missing = append(missing, r)
		}
	}
	reach := map[*ssa.Function]bool{}
	for len(work) > 0 {
		f := work[len(work)-1]
		work = work[:len(work)-1]
		if reach[f] {
			continue
		}
		reach[f] = true
		if n := cg.Nodes[f]; n != nil {
			for _, e := range n.Out {
				if inRepo(e.Callee.Func) && !reach[e.Callee.Func] {
					work = append(work, e.Callee.Func)
				}
			}
		}
		for _, af := range f.AnonFuncs {
			if !reach[af] {
				work = append(work, af)
			}
		}
	}
	_ = callgraph.Node{}
	type row struct {
		name string
		effs []string
	}
	var rows []row
	for f := range reach {
		var effs []string
		pos := func(p token.Pos) string {
			ps := prog.Fset.Position(p)
			return fmt.Sprintf("%s:%d", filepath.Base(ps.Filename), ps.Line)
		}
		for _, b := range f.Blocks {
			for _, ins := range b.Instrs {
				switch x := ins.(type) {
				case *ssa.Store:
					o, why := rootOf(x.Addr, map[ssa.Value]bool{})
					if o == oShared {
						effs = append(effs, fmt.Sprintf("EStoreShared %q", why+" at "+pos(x.Pos())))
					} else if o == oUnknown && !owned(f, why) {
						effs = append(effs, fmt.Sprintf("ECallUnknown %q", "store through "+why+" at "+pos(x.Pos())))
					}
				case *ssa.MapUpdate:
					o, why := rootOf(x.Map, map[ssa.Value]bool{})
					if o == oShared {
						effs = append(effs, fmt.Sprintf("EMapUpdate %q", why+" at "+pos(x.Pos())))
					} else if o == oUnknown && !owned(f, why) {
						effs = append(effs, fmt.Sprintf("ECallUnknown %q", "map update through "+why+" at "+pos(x.Pos())))
					}
				case *ssa.Send:
					effs = append(effs, fmt.Sprintf("ESend %q", pos(x.Pos())))
				case *ssa.Call:
					if b, ok := x.Call.Value.(*ssa.Builtin); ok && (b.Name() == "append" || b.Name() == "copy") && len(x.Call.Args) > 0 {
						// append writes into the spare capacity of its first argument's array, copy into its first argument
						o, why := rootOf(x.Call.Args[0], map[ssa.Value]bool{})
						if o == oShared {
							effs = append(effs, fmt.Sprintf("EStoreShared %q", b.Name()+" into "+why+" at "+pos(x.Pos())))
						} else if o == oUnknown && !owned(f, why) {
							effs = append(effs, fmt.Sprintf("ECallUnknown %q", b.Name()+" into "+why+" at "+pos(x.Pos())))
						}
					}
					// the ADDRESS of a package-level variable handed to a callee (errors.As(err, &pkgVar), json.Unmarshal
					// into a global ...): the callee writes through it, possibly by reflection
					for _, a := range x.Call.Args {
						v := a
						for {
							if mi, ok := v.(*ssa.MakeInterface); ok {
								v = mi.X
								continue
							}
							if ct, ok := v.(*ssa.ChangeType); ok {
								v = ct.X
								continue
							}
							break
						}
						if gl, ok := v.(*ssa.Global); ok {
							effs = append(effs, fmt.Sprintf("EStoreShared %q", "address of package-level variable "+gl.Name()+" passed to a call at "+pos(x.Pos())))
						}
					}
					if c := x.Call.StaticCallee(); c != nil && c.Pkg != nil && len(x.Call.Args) > 0 {
						// library functions that rearrange their argument in place
						full := c.Pkg.Pkg.Path() + "." + c.Name()
						if inPlaceMutators[full] || (c.Pkg.Pkg.Path() == "slices" && (strings.HasPrefix(c.Name(), "Sort") || c.Name() == "Reverse")) {
							o, why := rootOf(x.Call.Args[0], map[ssa.Value]bool{})
							if o == oShared {
								effs = append(effs, fmt.Sprintf("EStoreShared %q", full+" on "+why+" at "+pos(x.Pos())))
							} else if o == oUnknown && !owned(f, why) {
								effs = append(effs, fmt.Sprintf("ECallUnknown %q", full+" on "+why+" at "+pos(x.Pos())))
							}
						}
					}
					if c := x.Call.StaticCallee(); c != nil && c.Pkg != nil {
						pp := c.Pkg.Pkg.Path()
						if pp == "sync/atomic" || (pp == "sync" && c.Signature.Recv() != nil) {
							effs = append(effs, fmt.Sprintf("EAtomic %q", c.String()+" at "+pos(x.Pos())))
						}
					}
				case *ssa.Go:
					effs = append(effs, fmt.Sprintf("ECallUnknown %q", "go statement at "+pos(x.Pos())))
				}
			}
		}
		name := f.String()
		rows = append(rows, row{strings.ReplaceAll(name, modPath+"/", ""), effs})
	}
	sort.Slice(rows, func(i, j int) bool { return rows[i].name < rows[j].name })
	var sb strings.Builder
	sb.WriteString("(* GENERATED by translators/effects from /repo on every check -- do not edit. *)\n")
	sb.WriteString("From Coq Require Import String List.\nFrom Errv Require Import Model.Conc.\nImport ListNotations.\nOpen Scope string_scope.\n\n")
	sb.WriteString("Definition effects_table : list fn_effects := [\n")
	for _, m := range missing {
		rows = append(rows, row{"<root not found> " + m, []string{fmt.Sprintf("ECallUnknown %q", "observer root "+m+" not found in the source")}})
	}
	for i, r := range rows {
		sep := ";"
		if i == len(rows)-1 {
			sep = ""
		}
		fmt.Fprintf(&sb, "  mkeff %q [%s]%s\n", r.name, strings.Join(r.effs, "; "), sep)
	}
	sb.WriteString("].\n")
	old, _ := os.ReadFile(outV)
	if string(old) != sb.String() {
		os.MkdirAll(filepath.Dir(outV), 0o755)
		os.WriteFile(outV, []byte(sb.String()), 0o644)
	}
	n := 0
	for _, r := range rows {
		if len(r.effs) > 0 {
			n++
			fmt.Println("EFFECT", r.name, r.effs)
		}
	}
	fmt.Printf("effects: %d observer-reachable functions, %d with shared writes\n", len(rows), n)
}
