#!/bin/bash
# development aid: run the quick check of every claimed property, in sequence
cd /verif
for p in $(python3 -c "import json;print(' '.join(c['property_id'] for c in json.load(open('MANIFEST.json'))['checks']))"); do
  /usr/bin/time -f "  [%es]" bin/check $p ${1:-quick} 2>&1 | tail -${2:-6} | cut -c1-400
done
