#!/bin/bash
# Regenerates coq/Gen/*.v from /repo's current working tree (translators).
#   bin/regen_tables.sh [PROP|all]
# The depth table is cheap and always regenerated; the effects table (go/ssa,
# ~10 s) is regenerated for C18 and for "all" (setup).  A generated file is
# rewritten only when its content changes.
set -e
export GOFLAGS=-mod=mod GOPROXY=off GOSUMDB=off GOTOOLCHAIN=local CGO_ENABLED=0
cd /verif
mkdir -p build coq/Gen
what=${1:-all}
(cd translators/depthtab && go build -o /verif/build/depthtab .)
build/depthtab /repo coq/Gen/DepthTable.v build/depth_entries.json
if [ "$what" = "all" ] || [ "$what" = "C18" ] || [ ! -f coq/Gen/Effects.v ]; then
  (cd translators/effects && cp -n /dev/null go.sum 2>/dev/null; go build -o /verif/build/effects .)
  build/effects /repo coq/Gen/Effects.v | tail -3
fi
