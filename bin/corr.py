#!/usr/bin/env python3
"""development aid: bin/corr.py STREAM SEED N  -> harness gen + sharded model + diff"""
import sys, os, importlib.machinery, importlib.util
VERIF = os.path.dirname(os.path.dirname(os.path.abspath(__file__)))
loader = importlib.machinery.SourceFileLoader('check', os.path.join(VERIF, 'bin', 'check'))
spec = importlib.util.spec_from_loader('check', loader)
check = importlib.util.module_from_spec(spec); loader.exec_module(check)
import time
stream, seed, n = sys.argv[1], int(sys.argv[2]), int(sys.argv[3])
log = []
t = time.time()
res = check.run_stream('dev', stream, seed, n, log)
if 'error' in res:
    print(res['error'])
else:
    print('\n'.join(log)[-6000:])
    print('oracle failures:', len(res['meta'].get('oracle_failures') or []), ' time %.1fs' % (time.time() - t))
