#!/bin/bash
# Builds the Coq development (all of it, or with "runner" only what the
# extracted model runner needs), extracts the model and compiles the OCaml runner.
set -e
cd /verif/coq
[ -f Makefile ] && [ Makefile -nt _CoqProject ] || coq_makefile -f _CoqProject -o Makefile >/dev/null
if [ "$1" = "runner" ]; then
  timeout 3000 make -j16 Model/Run2.vo 2>&1 | grep -v "^COQDEP\|^COQC\|^CAMLDEP\|^make" || true
else
  timeout 3000 make -j16 2>&1 | grep -v "^COQDEP\|^COQC\|^CAMLDEP" || true
fi
test -f Model/Run2.vo
if [ ! -x /verif/runner/model_runner ] || [ Model/Run2.vo -nt /verif/runner/model_runner ]; then
  (cd Extract && timeout 600 coqc -Q .. Errv Extract.v >/dev/null)
  cp Extract/runner.ml Extract/runner.mli /verif/runner/
  (cd /verif/runner && ocamlfind ocamlopt -O3 -w -a runner.mli runner.ml main.ml -o model_runner 2>&1 | grep -v "options -O3 is only relevant" || true)
fi
test -x /verif/runner/model_runner
