#!/usr/bin/env python3
"""Regenerates the checks / not_applicable sections of MANIFEST.json from bin/propconf.py."""
import json, sys, os
VERIF = os.path.dirname(os.path.dirname(os.path.abspath(__file__)))
sys.path.insert(0, os.path.join(VERIF, 'bin'))
from propconf import PROPS
titles = {}
for l in open(os.path.join(VERIF, 'properties.jsonl')):
    p = json.loads(l)
    titles[p['id']] = p['title']
m = json.load(open(os.path.join(VERIF, 'MANIFEST.json')))
checks = []
for pid in sorted(PROPS):
    c = PROPS[pid]
    partial = ' Not yet proved (decided on every run by the correspondence and the implementation-side relation only): ' + '; '.join(c['not_yet_proved']) if c.get('not_yet_proved') else ''
    checks.append({
        "property_id": pid,
        "quick_cmd": "bin/check %s quick" % pid,
        "thorough_cmd": "bin/check %s thorough" % pid,
        "evidence_file": "evidence/%s.json" % pid,
        "replay_cmd_template": "bin/check --replay {path}",
        "engine": "rocq-model",
        "level_claimed": {"category": "proof", "text": "Coq theorems over the executable Gallina model of the library (coq/Props/%s.v), tied to /repo on every run: %s.%s" % (pid, c['explanation'], partial), "design_ref": "DESIGN.md section 5, %s" % pid},
        "level_note": "trusts the Coq kernel (vm_compute included), the hand-written model and the translators (checked against the implementation on every run), extraction + OCaml driver for that comparison, the Go harness; " + '; '.join(c.get('assumptions', [])),
        "technique": "machine-checked proof in Rocq (Coq 8.16.1) over an executable model (hand-written, plus tables regenerated from the source) + model/implementation correspondence run + implementation-side relation for the failing-input search",
    })
m['checks'] = checks
m['engines'][0]['serves_properties'] = sorted(PROPS)
m['engines'][1]['serves_properties'] = sorted(PROPS)
m['not_applicable'] = [{"property_id": pid, "reason": "check under construction in this round (see DESIGN.md); not yet claimed"} for pid in sorted(titles) if pid not in PROPS]
json.dump(m, open(os.path.join(VERIF, 'MANIFEST.json'), 'w'), indent=1)
print(len(checks), 'checks;', 'not claimed:', [x['property_id'] for x in m['not_applicable']])
