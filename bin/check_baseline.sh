#!/bin/bash
# usage: check_baseline.sh <dir-of-errors-worktree>
# Runs the pinned test suite in that tree and reports which of the 244 pinned tests no longer pass.
export GOFLAGS=-mod=mod GOPROXY=off GOSUMDB=off GOTOOLCHAIN=local
cd "$1" || exit 2
go build ./... || { echo "BUILD FAILED"; exit 1; }
out=$(mktemp /var/tmp/baseline.XXXXXX.json)
go test -mod=mod -json -vet=off -count=1 -timeout 25m ./... > "$out" 2>/dev/null
python3 - "$out" <<'PY'
import json,sys
passed=set()
for line in open(sys.argv[1]):
    try: ev=json.loads(line)
    except Exception: continue
    if ev.get('Action')=='pass' and ev.get('Test'):
        passed.add(ev['Package']+'::'+ev['Test'])
base=json.load(open('/root/.vp/BASELINE.json'))['stable_pass']
missing=[t for t in base if t not in passed]
print("pinned tests: %d, passing now: %d, missing: %d" % (len(base), len(base)-len(missing), len(missing)))
for t in missing[:40]: print("MISSING", t)
sys.exit(1 if missing else 0)
PY
rc=$?
rm -f "$out"
exit $rc
