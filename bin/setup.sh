#!/bin/bash
# MANIFEST.setup_cmd: build everything from files on disk, offline.
set -e
export GOFLAGS=-mod=mod GOPROXY=off GOSUMDB=off GOTOOLCHAIN=local CGO_ENABLED=0
cd /verif
mkdir -p build evidence
[ -x bin/regen_tables.sh ] && bin/regen_tables.sh
(cd harness && cp /repo/go.sum . && go build -tags verif -o /verif/build/verifharness ./cmd/verifharness)
bin/build_model.sh
echo setup done
