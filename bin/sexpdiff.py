#!/usr/bin/env python3
"""Compare observed.sexp (implementation) with model.sexp (model) line by line;
print the first differing observation of each differing case."""
import sys, json

def parse(s):
    pos = 0
    n = len(s)
    def skip():
        nonlocal pos
        while pos < n and s[pos] in ' \t\r\n':
            pos += 1
    def p():
        nonlocal pos
        skip()
        if s[pos] == '(':
            pos += 1
            items = []
            while True:
                skip()
                if s[pos] == ')':
                    pos += 1
                    return items
                items.append(p())
        if s[pos] == '"':
            pos += 1
            out = []
            while s[pos] != '"':
                if s[pos] == '\\':
                    c = s[pos+1]
                    if c == 'x':
                        out.append('\\x' + s[pos+2:pos+4]); pos += 4
                    else:
                        out.append('\\' + c); pos += 2
                else:
                    out.append(s[pos]); pos += 1
            pos += 1
            return '"' + ''.join(out) + '"'
        st = pos
        while pos < n and s[pos] not in ' \t\r\n()"':
            pos += 1
        return s[st:pos]
    return p()

def show(x, limit=600):
    def r(x):
        if isinstance(x, list):
            return '(' + ' '.join(r(y) for y in x) + ')'
        return x
    t = r(x)
    return t if len(t) <= limit else t[:limit] + '...'

def first_diff(a, b, path=''):
    if isinstance(a, list) and isinstance(b, list):
        for i in range(max(len(a), len(b))):
            if i >= len(a) or i >= len(b):
                return path + '/%d' % i, (a[i] if i < len(a) else '<missing>'), (b[i] if i < len(b) else '<missing>')
            d = first_diff(a[i], b[i], path + '/%d' % i)
            if d: return d
        return None
    if a != b:
        return path, a, b
    return None

def main():
    obs_f, mod_f, cases_f = sys.argv[1], sys.argv[2], sys.argv[3]
    maxshow = int(sys.argv[4]) if len(sys.argv) > 4 else 5
    out_json = sys.argv[5] if len(sys.argv) > 5 else None
    obs = open(obs_f, encoding='latin-1').read().split('\n')
    mod = open(mod_f, encoding='latin-1').read().split('\n')
    cases = open(cases_f, encoding='latin-1').read().split('\n')
    nd = 0
    diffs = []
    total = 0
    for i, (o, m) in enumerate(zip(obs, mod)):
        if not o and not m: continue
        total += 1
        if o == m: continue
        nd += 1
        po, pm = parse(o), parse(m)
        # find differing observation
        which = None
        for k in range(2, max(len(po), len(pm))):
            a = po[k] if k < len(po) else '<missing>'
            b = pm[k] if k < len(pm) else '<missing>'
            if a != b:
                which = (a, b); break
        name = which[0][0] if which and isinstance(which[0], list) and which[0] else '?'
        d = first_diff(which[0], which[1]) if which else None
        rec = {'case_index': i, 'case': po[1] if len(po) > 1 else '?', 'observation': name if isinstance(name, str) else show(name),
               'impl': show(d[1]) if d else show(which[0] if which else po), 'model': show(d[2]) if d else show(which[1] if which else pm),
               'path': d[0] if d else '', 'case_line': cases[i][:3000] if i < len(cases) else ''}
        diffs.append(rec)
        if nd <= maxshow:
            print('--- MISMATCH case %s observation %s at %s' % (rec['case'], rec['observation'], rec['path']))
            print('  impl : ' + rec['impl'])
            print('  model: ' + rec['model'])
            print('  case : ' + rec['case_line'][:1500])
    if len(obs) != len(mod):
        print('line count differs: observed %d model %d' % (len(obs), len(mod)))
        nd += 1
    print('compared %d cases, %d mismatching' % (total, nd))
    if out_json:
        json.dump({'compared': total, 'mismatches': nd, 'diffs': diffs[:50]}, open(out_json, 'w'), indent=1)
    sys.exit(1 if nd else 0)

main()
