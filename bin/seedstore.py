#!/usr/bin/env python3
"""bin/seedstore.py <validated-dir> <id>: copy a seeded defect validated by bin/seedtest.py
(seedtest.json present) into /verif/seeded/<id>/ (patch rebased to /repo HEAD, demo, notes, meta.json)."""
import sys, os, json, glob, shutil, re
src, sid = sys.argv[1], sys.argv[2]
st = json.load(open(os.path.join(src, 'seedtest.json')))
dst = os.path.join('/verif/seeded', sid)
os.makedirs(dst, exist_ok=True)
open(os.path.join(dst, 'patch.diff'), 'w').write(st.get('rebased_patch') or open(os.path.join(src, 'patch.diff')).read())
for f in glob.glob(os.path.join(src, '*_test.go')):
    shutil.copy(f, dst)
notes = ''
if os.path.exists(os.path.join(src, 'notes.md')):
    shutil.copy(os.path.join(src, 'notes.md'), dst)
    notes = open(os.path.join(src, 'notes.md')).read()
m = re.search(r'(?is)(what it needs[^\n]*\n.*?)(?=\n#|\n\*\*\(d\)|\n\(d\)|\Z)', notes)
demo = st.get('demo') or {}
checks = {}
caught = []
for c, v in (st.get('checks') or {}).items():
    lines = v.get('lines') or []
    vio = [l for l in lines if l.startswith('VIOLATION')]
    checks[c] = {'exit': v.get('exit'), 'summary': (lines or ['?'])[0][:300], 'violation_lines': vio[:3]}
    if v.get('exit') == 1 and vio:
        caught.append(c)
meta = {
    'property': st['property'], 'id': sid, 'breaks': 'see notes.md',
    'needs_to_manifest': (m.group(1)[:1500] if m else 'see notes.md'),
    'validated': {'patch_applies_to_repo_head': st.get('applied'), 'pinned_suite_with_patch': st.get('baseline'),
                  'demo_dir': demo.get('dir'), 'demo_fails_with_patch': demo.get('fails_with_patch'),
                  'demo_passes_without': demo.get('passes_without')},
    'ran': 'bin/seedtest.py <dir> %s : scratch worktree of /repo HEAD (git apply, go build, pinned suite, demo with and without the patch); then the patch applied to /repo, bin/check %s quick, /repo restored' % (st['property'], st['property']),
    'checks': checks, 'caught_by': caught,
}
json.dump(meta, open(os.path.join(dst, 'meta.json'), 'w'), indent=1)
print(sid, 'caught_by', caught, 'demo', demo.get('fails_with_patch'), demo.get('passes_without'), st.get('baseline'))
