#!/bin/bash
# development aid: run the Go-side oracles of every stream and summarise failures
cd /verif
seed=${1:-3}; n=${2:-300}
for p in ${3:-C01 C02 C03 C04 C06 C06R C07 C07M C08 C09 C10 C11 C12 C13 C14 C15 C19}; do mkdir -p build/run/t/$p; build/verifharness gen -prop $p -seed $seed -n $n -out build/run/t/$p 2>&1 | tr '\n' ' '; python3 - $p <<'PY'
import json,sys
m=json.load(open('/verif/build/run/t/%s/meta.json'%sys.argv[1]))
fs=m['oracle_failures'] or []
print(' evals',m['oracle_evaluations'],'fails',len(fs), 'unmatched', len([f for f in fs if not f.get('matcher')]))
seen=set()
for f in fs:
    if f.get('matcher'): continue
    k=(f['oracle'],f['what'][:50])
    if k in seen: continue
    seen.add(k)
    print('   ',f['oracle'],'|',f['what'][:200])
    print('      recipe:',f['recipe'][:400]); print('      detail:',f['detail'][:500])
    if len(seen)>=4: break
PY
done
