#!/usr/bin/env python3
"""regression over /verif/seeded: apply each stored patch to /repo, run the quick check of the property
that is recorded as catching it, restore /repo; prints one line per defect."""
import os, json, subprocess, sys, glob
env = dict(os.environ, GOFLAGS='-mod=mod', GOPROXY='off', GOSUMDB='off', GOTOOLCHAIN='local')
def sh(cmd, cwd=None, timeout=2400):
    p = subprocess.run(cmd, shell=True, cwd=cwd, env=env, stdout=subprocess.PIPE, stderr=subprocess.STDOUT, timeout=timeout, universal_newlines=True)
    return p.returncode, p.stdout
ids = sorted(os.listdir('/verif/seeded'))
if len(sys.argv) > 1:
    ids = [i for i in ids if any(i.startswith(a) for a in sys.argv[1:])]
bad = []
for sid in ids:
    d = '/verif/seeded/' + sid
    meta = json.load(open(d + '/meta.json'))
    prop = (meta.get('caught_by') or [meta['property']])[0]
    rc, out = sh('git -C /repo apply %s/patch.diff' % d)
    if rc != 0:
        print(sid, 'PATCH DOES NOT APPLY', out[:200]); bad.append(sid); continue
    try:
        rc, out = sh('bin/check %s quick' % prop, cwd='/verif')
    finally:
        sh('git -C /repo checkout -- . && git -C /repo reset -q --hard HEAD && git -C /repo clean -fdq')
    vio = [l for l in out.split('\n') if l.startswith('VIOLATION')]
    ok = rc == 1 and vio
    print(sid, prop, 'caught' if ok else 'MISSED', flush=True)
    if not ok:
        bad.append(sid)
sh('bin/regen_tables.sh all', cwd='/verif')
print('REGRESSION DONE; not caught:', bad)
