#!/bin/bash
# Runs the repository's pinned baseline (guard OFF) and compares with BASELINE.json stable_pass.
export GOFLAGS=-mod=mod GOPROXY=off GOSUMDB=off GOTOOLCHAIN=local
cd /repo || exit 2
out=$(mktemp /var/tmp/baseline.XXXXXX.json)
go test -mod=mod -json -vet=off -count=1 -timeout 25m ./... > "$out" 2>/dev/null
python3 - "$out" <<'PY'
import json,sys
passed=set()
for line in open(sys.argv[1]):
    try: ev=json.loads(line)
    except Exception: continue
    if ev.get('Action')=='pass' and ev.get('Test'):
        passed.add(ev['Package']+'::'+ev['Test'])
base=json.load(open('/root/.vp/BASELINE.json'))['stable_pass']
missing=[t for t in base if t not in passed]
print("baseline stable tests: %d, passing now: %d, missing: %d" % (len(base), len(base)-len(missing), len(missing)))
for t in missing[:20]: print("MISSING", t)
sys.exit(1 if missing else 0)
PY
rc=$?
rm -f "$out"
exit $rc
