"""Per-property configuration of bin/check."""

TRUSTED_BASE = [
    "Coq 8.16.1 kernel and its vm_compute machine (no native_compute); coqchk in the thorough tier of C19",
    "no axiom declared by the development; Print Assumptions output of every property theorem is in this file",
    "extraction (ExtrOcamlBasic only, no Extract Constant / Extract Inductive of our own) and runner/main.ml (generic S-expression reader/printer) -- used only for the correspondence check, never in place of a theorem",
    "the Go harness (harness/cmd/verifharness): recipe interpreter against the public API, observation printers, canonicalisation (telemetry keys sorted)",
    "hand-written Gallina model coq/Model/*.v of the library and coq/Redact/*.v of cockroachdb/redact v1.1.5; tied to /repo by the correspondence run of this check",
]

def S(name, quick, thorough, extra=''):
    return {'name': name, 'quick': quick, 'thorough': thorough, 'extra': extra}

PROPS = {
    'C19': {
        'streams': [S('C19', 600, 20000)],
        'explanation': 'C19_hints/C19_details/C19_flatten/C19_links/C19_keys: the Go accumulator code (transcribed in Model/Access.v) equals the declarative spec of Spec/Aggregate.v for every error tree; correspondence compares GetAllHints/GetAllDetails/Flatten*/GetAllIssueLinks/GetTelemetryKeys/GetContextTags of the real library with the model on generated chains with repeated, empty and standard hints',
        'assumptions': ['error values range over the kinds of Model/Err.v (library types, adapted foreign types, harness user types)'],
    },
}
