"""Per-property configuration of bin/check."""

TRUSTED_BASE = [
    "Coq 8.16.1 kernel and its vm_compute machine (no native_compute); coqchk -o over the property files in the thorough tier",
    "no axiom declared by the development; the Print Assumptions output of every property theorem is in this file",
    "extraction (ExtrOcamlBasic only, no Extract Constant / Extract Inductive of our own) and runner/main.ml (generic S-expression reader/printer) -- used only for the correspondence check, never in place of a theorem",
    "the Go harness (harness/cmd/verifharness): recipe interpreter against the public API, observation printers, canonicalisation (telemetry keys sorted), the Go-side relations (oracles.go)",
    "hand-written Gallina model coq/Model/*.v of the library and coq/Redact/*.v of cockroachdb/redact v1.1.5; tied to /repo by the correspondence run of this check (model and implementation evaluated on the same generated recipes, projected observables compared)",
]

ASSUME_UNIVERSE = 'error values range over the kinds of Model/Err.v (library types, adapted stdlib / pkg-errors / os / gRPC types, harness user types of harness/ut)'


def S(name, quick, thorough, extra=''):
    return {'name': name, 'quick': quick, 'thorough': thorough, 'extra': extra}


def AUX(name, cmd, quick, thorough, model=False, cgo=False):
    return {'name': name, 'quick': quick, 'thorough': thorough, 'aux': cmd, 'model': model, 'cgo': cgo}


PROPS = {
    'C01': {
        'streams': [S('C01', 1500, 30000)],
        'explanation': 'theorems: the first knowing hop (hence k hops) keeps the Error() text at every node and the tree structure for errors of EVERY kind satisfying text_ok (stack layers, pkg/errors, fmt.Errorf, user types, stdlib joins, opaque nodes; hidden errors unconstrained), each condition of text_ok shown necessary by a witness; one knowing hop is the identity (up to object identity) for every error of exact-decoder kinds, any byte strings, any depth, any number of hops; for EVERY error and every process with closed knowledge everything is stable from the second hop on and the wire message is a fixpoint (from the first hop unless a foreign-platform errno is forwarded); wire message has the shape of the visible tree; a process knowing none of the types re-emits its input verbatim. Correspondence: text/shape tree and encoded message of model vs implementation locally and after 1 and 2 knowing hops on the enumerated kind x kind corpus + random trees; Go relation: text tree equal after hops 1..4, wire bytes of hop k = hop k+1 for k>=1',
        'not_yet_proved': ['first-hop text for the library Join over branches of kinds without exact decoder, and for non-ASCII / multi-line strings below prefix wrappers over opaque stand-ins (outside the proved predicate text_ok; true on the evaluated samples); proved: text at every node and structure over the first hop for every kind under text_ok (C01_text_tree_first_hop), exact-kind errors for any strings, every error from the second hop on'],
        'assumptions': [ASSUME_UNIVERSE, 'regular strings (property quantifier)'],
    },
    'C02': {
        'streams': [S('C02', 1200, 25000)],
        'explanation': 'theorems (first hop, every kind): the mark of every visible node (message + full type-mark sequence) is kept by k knowing hops for every error under text_ok and mark_ok, hence Is / IsAny against every reference that existed before the transfer, and symmetrically for a transferred reference; the side conditions are witnessed necessary. theorems: Is is decided by identity / Is methods / mark equality over the visible nodes (iff); Is and IsAny cannot distinguish errors with the same erasure (hence: unchanged by one knowing hop for exact-kind errors, unchanged from the second hop on for every error); reference-side statement with the os-sentinel exemption (witness proved); opaque stand-ins carry the origin type marks; unknowing hops invisible later. Correspondence: Is against sentinels, nodes, rebuilt and perturbed copies before and after mixed hop sequences; Go relation: Is invariant (e transferred / both / only r)',
        'not_yet_proved': ['Is across the first hop for references accepted only by a USER type own Is method (cannot hold: the type is unknown on the other side; witness C02_user_is_method_lost), and for trees outside text_ok / mark_ok: decided by the correspondence only'],
        'assumptions': [ASSUME_UNIVERSE, 'the process evaluating Is can rebuild the types whose own Is method or Mark layer produced the match (DESIGN.md section 6 reading)'],
    },
    'C03': {
        'streams': [S('C03', 1500, 30000)],
        'explanation': 'theorems (whole engine, Proofs/EngineNI.v): for any two errors that differ only in the CONTENT of unsafe strings (every unsafe position of the model, hidden errors included; same line shape), Redact() of the %v/%s and of the %+v rendering is the same; the needed refinement of "shape" (lines of 0/1/2+ bytes for strings the engine writes itself) is witnessed: a one-bit-per-line length side channel, not content; theorems (Proofs/DetailsNI.v): GetSafeDetails / GetAllSafeDetails, the whole Sentry report record and the reportable part (type names + reportable payload) of every node of the wire encoding are equal for two such errors (C03_safe_details, C03_report, C03_wire_reportable); the two positions where an encoder declares reportable what the formatter prints as an unsafe argument (HTTP status code, foreign errno text) are witnessed; theorems (Proofs/ApiNI.v), on the INPUT of the public API: two constructor expressions related by req (same constructors, safe inputs equal, unsafe inputs arbitrary with the same line shape) build errors with the same redacted %v / %s for arbitrary bytes (C03_api_short) and the same redacted %+v, safe details, report and reportable wire payload under strs_ok / stacks_ok (C03_api_outputs); every exclusion of the fragment and every extra clause of req is witnessed; across transfers (Proofs/ApiNITransfer.v): the engine theorems hold for the weaker relation ueqT (opaque nodes related only in what the engine reads), decoding through any process maps encT-related wire messages to ueqT-related errors (C03_transfer_decode), and no relation containing ueq is both hop-closed and sufficient (C03_transfer_no_uniform_relation). Correspondence on hostile strings: redactable %v/%+v, safe details, wire message, Sentry report of model vs implementation, local / knowing hops / unknowing hop; Go relation: no unsafe token in any PII-free output',
        'not_yet_proved': ['pairs of constructor expressions outside the fragment ni_frag (stdlib Join, full-message user wrappers, error arguments that are not last in a message format), and for transfers the encoding half (related errors have encT-related encodings: evaluated on 60 process lists, not proved): decided by the correspondence and the Go relation'],
        'assumptions': [ASSUME_UNIVERSE],
    },
    'C04': {
        'streams': [S('C04', 1200, 25000)],
        'explanation': 'theorems: C04_confluence -- for ANY intermediary (any subset of known types) and any wire message a knowing receiver decodes what the intermediary forwards to the same error (erasure: text, marks, Is, encoding, details, accessors, renderings) as the original message; through any chain of intermediaries for errors without opaque nodes; the one side condition (a payload that is itself an error) is witnessed necessary. theorems: exact re-encoding and confluence through processes that know none of the types, opaque nodes show the received text and keep names and details; refutation witnesses for the two recorded findings. Correspondence: shape / wire message / details at intermediaries with random knowledge subsets and at a later knowing process; Go relation: text, byte-exact re-encoding, names and details, reconstruction equal to direct receipt',
        'not_yet_proved': [],
        'assumptions': [ASSUME_UNIVERSE, 'regular strings'],
    },
    'C06': {
        'streams': [S('C06', 1500, 30000), S('C06R', 900, 20000)],
        'explanation': 'theorems (whole engine, Proofs/EngineWf.v): the redactable %v/%s rendering of EVERY error (all kinds, any depth, arbitrary bytes everywhere) is well-formed and balanced on every line when the redactable strings stored in the visited nodes are; %+v likewise under the decidable entry-glue condition; C06_engine_refuted_*: the conditions fail for errors built by the public API from strings with a truncated marker prefix at a line end -- the recorded finding marker-assembled-from-truncated-utf8, confirmed on the code; theorems (Proofs/ApiWf.v): from the INPUT of the public API -- for every constructor expression (all forms, transfers through arbitrary processes included) whose message strings have no truncated marker prefix before a newline / colon / E2 or at their end (decidable strs_ok; hints, details, links, keys, domains, tags, safe details unconstrained) both renderings are well-formed on every line (C06_api_short, C06_api_verbose), with no string condition when error arguments come last (C06_api_short_lastarg); the condition is witnessed necessary; C06_api_all (Proofs/ApiWfPlus.v): the same for every constructor expression, %+v error arguments in message formats included, under the strengthened string condition (strs_ok-prime in the Coq text) and tidy frame names. Correspondence: redactable renderings byte-equal model vs implementation on hostile strings (local, decoded, opaque) and on regular strings with the plain renderings; Go relation: markers balanced / not nested / balanced per line; strip = plain; unsupported verbs refused',
        'not_yet_proved': ['congruence (strip = plain) beyond ASCII arguments; C06_api_all under the weaker string / stack conditions of C06_api_verbose (no witness shows the strengthening necessary)'],
        'assumptions': [ASSUME_UNIVERSE],
    },
    'C07': {
        'streams': [S('C07', 1500, 30000), S('C07M', 900, 20000)],
        'explanation': 'theorems: full non-interference: any two errors equal up to what is hidden behind barriers / in secondary positions (any context, any depth, inside multi-cause branches) agree on Is / IsAny (both sides) / As / HasType / every accessor / Error() / %v / marks / traversal; a Mark layer keeps only the mark; the hidden payload is re-decoded into the hidden position; the hidden error stays visible: its (indented) redactable %+v rendering is a substring of the %+v of the barrier / secondary layer, and its safe details are contained in that layer safe details (equations). Correspondence: accessors, Is, As; Go relation: the same context built over a different hidden payload gives the same cause analysis, locally and after hops',
        'not_yet_proved': [],
        'assumptions': [ASSUME_UNIVERSE],
    },
    'C08': {
        'streams': [S('C08', 1500, 30000)],
        'explanation': 'theorems: reflexivity, monotonicity for every wrapper / multi kind, IsAny = disjunction, nil, equalMarks decides mark equality, exact characterisation, Mark. Correspondence: Is / IsAny matrix against sentinels, nodes, rebuilt and perturbed copies; Go relation: the algebraic laws on the implementation, panics caught',
        'assumptions': [ASSUME_UNIVERSE],
    },
    'C09': {
        'streams': [S('C09', 900, 25000)],
        'explanation': 'theorems (Proofs/VerboseLayout.v): the exact layout of %+v for every error (first line, numbered entries with multi-cause indentation, Error types line in entry order); each entry carries its layer type, stack and -- for library wrappers -- exactly the detail its kind prints; entries follow the engine order, a permutation of the traversal order, equal on chain-like trees; theorems: %v = Error() for every tree of every kind with plain strings (no newline; ASCII where escaped), *net.OpError included when it has at most one of source / address; C09_v_s_operror_refuted: with both, %v prints "src -> addr" and Error() "src->addr" (recorded finding operror-arrow-spacing, shown on the code by the Go relation); exactly one entry per visible layer for every tree / flags / state; types line. Correspondence: %v and %+v byte-equal model vs implementation (local and decoded); Go relation: %v = %s = Error(), %q/%x/%X/width/precision/flags = fmt on the Error() string, entry count, Error types line, bad verbs',
        'not_yet_proved': ['%+v starts with Error() is proved under plain_tree and the decidable settled condition; fmt own verbs (%q %x width precision flags) are decided by the Go relation only, by design'],
        'assumptions': [ASSUME_UNIVERSE, "Go's fmt for %q/%x/%X/width/precision is not modelled (oracle only)"],
    },
    'C10': {
        'streams': [S('C10', 1800, 40000)],
        'explanation': 'theorems: C10_compositional -- for every constructor expression (all ~60 recipe forms incl. formatted messages with %v/%s/%w error arguments, nil arguments, extra arguments, joins, barriers) Error() equals the compositional specification spec_text computed from the expression alone, and the result is nil exactly when the specification is; annotation layers transparent for text / root / Is / As, prefix and new-message layers, Handled, nil propagation for every wrapper constructor, CombineErrors / WithSecondaryError nil laws, leaf constructors non-nil. Correspondence: nil-ness, text at every node, root; Go relation: independent compositional model of text and nil-ness over recipes',
        'not_yet_proved': ['the compositional text theorem (C10_compositional) is proved for plain strings (ASCII, single-line branches of joins); recipes with multi-line or non-ASCII strings and transferred sub-errors are decided by the correspondence only'],
        'assumptions': [ASSUME_UNIVERSE, 'regular strings'],
    },
    'C11': {
        'streams': [S('C11', 1200, 25000)],
        'explanation': 'theorems: every accessor is a function of the erasure; exact-kind errors keep every annotation and per-layer safe details over any number of knowing hops; every error is stable from the second hop on; every annotation layer is rebuilt over any cause; an errno received from another platform keeps its predicates over any number of hops (after the library repair 176a263; the first-hop stability theorem no longer has a side condition); the printed-stack codec: parse(print st) = st for every stack whose names have no newline (each side condition shown necessary), so stack layers of the library and of pkg/errors report the captured frames and the same one-line source after a hop to ANY process; unknowing hops invisible later. Correspondence: every accessor, per-layer safe details, reportable stacks, one-line source before and after 1 and 2 knowing hops; Go relation: accessor vector equal after hops 1..3',
        'not_yet_proved': [],
        'assumptions': [ASSUME_UNIVERSE],
    },
    'C12': {
        'streams': [S('C12', 1500, 30000)],
        'explanation': 'theorems (Proofs/SafeRetained.v): an ASCII literal or Safe() argument is a substring of the safe detail of its message layer whatever the other arguments; EVERY safe detail declared by ANY layer (chain, behind barriers, in secondary errors, any depth) is in GetAllSafeDetails (indented per hiding level), with channel instances (telemetry keys, domains, issue links, tag keys) and after k hops for exact trees; the report message contains the redacted verbose rendering and every layer type line; what is not retained is stated by witnesses; theorems (Proofs/ApiRetained.v), on constructor expressions: every ASCII string of safe_inputs r (computed from the expression alone; nil sub-expressions and Mark references excluded) is verbatim in GetAllSafeDetails / the report (C12_api_retained, C12_api_in_details), constructors that print an error argument without attaching it are witnessed (C12_api_arguments_not_attached). Correspondence: Sentry report and safe details model vs implementation; Go relation: every safe-channel token is in the report or in GetAllSafeDetails, locally and after knowing hops',
        'not_yet_proved': ['retention after hops for trees outside exact_tree / through processes that do not know the secondary-error type (false in general: witness secondary_details_need_the_decoder)'],
        'assumptions': [ASSUME_UNIVERSE, 'channels as listed by the property statement'],
    },
    'C13': {
        'streams': [S('C13', 720, 20000)],
        'explanation': 'theorems: Is / As clauses of multi-cause nodes, leaves for Unwrap, stdlib join text, library join text through the formatting engine (C13_join_text), wire shape, opaque branches. Correspondence: shape, Is, As, %+v, hops knowing and unknowing; Go relation: branch disjunction, first match in order, nil dropping, transfer keeps branches',
        'not_yet_proved': ['C13_join_text_blank_refuted: for a branch whose text is empty, ends in a newline or holds a blank line the clause is false (recorded finding join-blank-line-branch, shown on the code by the Go relation on 32 directed joins); text of the library join for branches with multi-line or non-ASCII texts (C13_join_text covers one-line plain branches; the rest is decided by the correspondence)'],
        'assumptions': [ASSUME_UNIVERSE],
    },
    'C14': {
        'streams': [S('C14', 1500, 30000)],
        'explanation': 'theorems: std Is implies Is; As = std As when every wrapper has Unwrap, implication on single chains; Unwrap agreement; Cause = pkg Cause on Cause-bearing chains; std traversal. Correspondence: the real errors.Is/As/Unwrap and pkg/errors.Cause against Std.v; Go relation: the same implications on the implementation',
        'assumptions': [ASSUME_UNIVERSE, 'Std.v transcribes Go 1.23 errors.Is/As/Unwrap (validated by the correspondence)'],
    },
    'C15': {
        'streams': [S('C15', 720, 20000)],
        'explanation': 'theorems also: the message is EXACTLY source prefix + redacted verbose rendering + header + one composition line per layer (innermost first) + trailer; each line is newline-free exactly when the layer type name is; theorems: message = [source: ] + redacted verbose rendering + composition header; one exception per stack-bearing layer (one synthetic when none); frames of each exception = that layer reportable stack; module = domain; error-types extra; for decoded errors the re-parsed frames are the captured ones and the source prefix comes from the same first frame (printed-stack codec). Correspondence: message, exceptions (type, value, module, frames) and error-types extra of BuildSentryReport, model vs implementation, local and decoded; Go relation: message prefix, one composition line / type line per layer, exceptions = stack-bearing layers outermost first',
        'not_yet_proved': [],
        'assumptions': [ASSUME_UNIVERSE, 'sentry-go event defaults not modelled'],
    },
    'C05': {
        'streams': [AUX('C05', '{build}/verifharness gen -prop C05 -seed {seed} -n {n} -out {out} -thorough={thorough}', 60, 600, model=True)],
        'explanation': 'theorems: every decoded node is the opaque stand-in carrying the message verbatim or a node of the type named on the wire over the decoded cause(s); decoders that need a payload fall back to the opaque type when it is absent or foreign. Sweep: every registered decoder key (from the live registries) x payload faults x detail faults x message types x 4 positions, and mutated wire bytes; DecodeError and every observer run under recover(); the decoded error compared with the model',
        'assumptions': [ASSUME_UNIVERSE, 'a payload EncodedError with no field set is outside the model payload type: those cases are decided by the implementation-side run only'],
    },
    'C16': {
        'streams': [AUX('C16', '{build}/verifharness depth {out} {build}/depth_entries.json', 1, 1)],
        'explanation': 'theorems: the forwarding table regenerated from the source passes the static offset check, and the check is sound for the frame-counting semantics for every depth and stack. Run: every named function x depth 0..3 through non-inlinable call chains across packages, first frame / one-line source / package domain compared with the expected caller',
        'assumptions': ['runtime.Callers / runtime.Caller report logical frames as documented, also under inlining (exercised, not proved)'],
        'rule': 'one case per (exported stack-capturing or domain function, call shape, depth); all are non-trivial',
        'trusted_extra': ['translators/depthtab (go/ast, ~300 lines): reads every exported function of the root package, errutil, withstack, domains, barriers, assert ... from /repo on every run and writes coq/Gen/DepthTable.v (callee, depth expression offset per forwarding call); the theorem C16_table_ok is about that regenerated table; its completeness (every function named by the property is in the table and exercised) is re-checked by the harness from the same extraction (build/depth_entries.json)'],
    },
    'C17': {
        'streams': [AUX('C17', '{build}/verifharness migrate {out}', 1, 1, model=True)],
        'explanation': 'theorems: duplicate targets rejected; registration of a rename chain of ANY length in ANY order succeeds and resolves every name to the original one; encoded under the original name / decoded to the local type; every version assignment to sender / intermediary / receiver sees the original family and Is agrees. Run: every registration order (and duplicates) of chains of 1..3 renames for a leaf and a wrapper type against the real registry (compared with the model), and all 48 version assignments x 2 type kinds through real encode / decode with per-version registries and decoders',
        'assumptions': ['Migrate.v transcribes RegisterTypeMigration (validated by the correspondence)'],
        'rule': 'one case per registration order / per (kind, sender, intermediary, receiver) assignment; all non-trivial',
    },
    'C18': {
        'streams': [AUX('C18', 'cd {verif}/harness && go build -race -tags verif -o {build}/verifharness_race ./cmd/verifharness && cd {verif} && GORACE="log_path={out}/race halt_on_error=0" {build}/verifharness_race race -seed {seed} -n {n} -out {out}', 40, 600, cgo=True)],
        'explanation': 'theorems: the write-effect table regenerated from the source (go/ssa, every function reachable from the observer API) lists no write to shared state; threads that do not write shared state are schedule-independent (any interleaving, any number of threads). Run: 16 goroutines x all observers on shared local / decoded / opaque errors of every kind under the race detector, results compared with the solo run',
        'assumptions': ['Go memory model for read-only sharing', 'soundness of the SSA write-effect extraction, including its caller-owned whitelist (translators/effects/main.go)', 'fmt, redact, logtags, sentry-go are exercised by the race detector only'],
        'rule': 'one case per goroutine run of the full observer set on a shared error; distinct = number of distinct trees',
        'trusted_extra': ['translators/effects (go/ssa + class-hierarchy call graph from golang.org/x/tools v0.29.0, ~400 lines): every function reachable from the observer API of /repo is scanned on every run for stores to fields / globals / slice elements / maps not allocated in the same function; writes coq/Gen/Effects.v; the whitelist of caller-owned buffers is in translators/effects/main.go and is part of the trusted base'],
    },
    'C20': {
        'streams': [AUX('C20', '{build}/verifharness grpc -seed {seed} -n {n} -out {out}', 150, 3000)],
        'explanation': 'theorems: for an error that is not itself a gRPC status, client(server(e)) is literally the value one EncodeError/DecodeError hop produces; the wire code is the attached code (Unknown when none or OK); status errors pass through. Run: the enumerated kind corpus, status / context leaves below wrappers and random trees returned from an in-memory gRPC service behind the real interceptors, compared with the direct hop (text, structure, annotations, %+v, Is) and with the raw status code',
        'assumptions': ['grpc-go transports code, message and details unchanged; gogo/status conversions (exercised, not modelled)'],
    },
    'C19': {
        'streams': [S('C19', 3600, 100000)],
        'explanation': 'C19_hints/C19_details/C19_flatten/C19_links/C19_keys: the Go accumulator code (transcribed in Model/Access.v) equals the declarative spec of Spec/Aggregate.v for every error tree; correspondence compares GetAllHints/GetAllDetails/Flatten*/GetAllIssueLinks/GetTelemetryKeys/GetContextTags of the real library with the model on generated chains with repeated, empty and standard hints; Go relation: independent re-implementation',
        'assumptions': [ASSUME_UNIVERSE],
    },
}
