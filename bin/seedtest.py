#!/usr/bin/env python3
"""Development aid: validate a seeded defect and run the checks against it.

  bin/seedtest.py <src-dir-with-patch.diff-and-demo> <property> [--checks C01,C04]

1. in a scratch worktree of /repo's HEAD (outside /repo and /verif): the patch applies, the library
   builds, the pinned suite still passes, the demo fails with the patch and passes without;
2. applies the patch to /repo, runs the quick check(s), restores /repo.
Prints a JSON summary."""
import json, os, subprocess, sys, glob, shutil, re

ENV = dict(os.environ, GOFLAGS='-mod=mod', GOPROXY='off', GOSUMDB='off', GOTOOLCHAIN='local')


def sh(cmd, cwd=None, timeout=1800):
    p = subprocess.run(cmd, shell=True, cwd=cwd, env=ENV, stdout=subprocess.PIPE, stderr=subprocess.STDOUT, timeout=timeout,
                       stdin=subprocess.DEVNULL)
    return p.returncode, p.stdout.decode('utf-8', 'replace')


def main():
    src, prop = sys.argv[1], sys.argv[2]
    checks = [prop]
    if '--checks' in sys.argv:
        checks = sys.argv[sys.argv.index('--checks') + 1].split(',')
    patch = os.path.join(src, 'patch.diff')
    demos = [f for f in glob.glob(os.path.join(src, '*_test.go'))]
    res = {'src': src, 'property': prop}
    wt = '/var/tmp/mutv/errors'
    sh('git -C /repo worktree remove --force %s' % wt)
    shutil.rmtree('/var/tmp/mutv', ignore_errors=True)
    os.makedirs('/var/tmp/mutv', exist_ok=True)
    rc, out = sh('git -C /repo worktree add -q --detach %s HEAD' % wt)
    try:
        rc, out = sh('git apply %s' % patch, cwd=wt)
        if rc != 0:
            rc, out = sh('git apply -3 %s' % patch, cwd=wt)
            res['applied'] = '3way' if rc == 0 else 'CONFLICT: ' + out[-300:]
            if rc != 0:
                print(json.dumps(res, indent=1))
                return 1
            sh('git reset -q', cwd=wt)
        else:
            res['applied'] = 'clean'
        # the patch as it applies to the current HEAD
        rc, rebased = sh('git diff', cwd=wt)
        res['rebased_patch'] = rebased
        rc, out = sh('/verif/bin/check_baseline.sh %s' % wt)
        res['baseline'] = out.strip().split('\n')[-1] if rc == 0 else 'FAIL: ' + out[-400:]
        # demo placement: the notes say where; default root, else try the package named in the file
        demo_ok = None
        for d in demos:
            pkgline = re.search(r'^package\s+(\w+)', open(d).read(), re.M).group(1)
            base = pkgline[:-5] if pkgline.endswith('_test') else pkgline
            cand = ['.'] if base == 'errors' else [base, 'grpc/' + base, '.']
            if base != 'errors' and not any(os.path.isdir(os.path.join(wt, c)) for c in cand[:2]):
                os.makedirs(os.path.join(wt, base))   # a demo that wants a package directory of its own
            placed = None
            for c in cand:
                if os.path.isdir(os.path.join(wt, c)):
                    placed = os.path.join(wt, c, os.path.basename(d))
                    shutil.copy(d, placed)
                    names = re.findall(r'^func (Test\w+)\(', open(d).read(), re.M)
                    runpat = '^(' + '|'.join(names) + ')$' if names else 'Demo|demo'
                    rc1, o1 = sh('go test -count=1 -run "%s" ./%s 2>&1 | tail -15' % (runpat, c), cwd=wt)
                    fails_with = ('FAIL' in o1) and ('build failed' not in o1)
                    if 'build failed' in o1 or 'undefined:' in o1 or 'no test files' in o1:
                        os.remove(placed)
                        placed = None
                        continue
                    # toggle the change without git stash (the stash is shared between worktrees)
                    os.remove(placed)
                    open('/var/tmp/mutv.patch', 'w').write(rebased)
                    sh('git apply -R /var/tmp/mutv.patch', cwd=wt)
                    shutil.copy(d, placed)
                    rc2, o2 = sh('go test -count=1 -run "%s" ./%s 2>&1 | tail -8' % (runpat, c), cwd=wt)
                    passes_without = rc2 == 0 and 'ok' in o2 and 'FAIL' not in o2 and 'no tests to run' not in o2
                    os.remove(placed)
                    sh('git apply /var/tmp/mutv.patch', cwd=wt)
                    os.remove('/var/tmp/mutv.patch')
                    os.remove(placed) if os.path.exists(placed) else None
                    demo_ok = {'dir': c, 'fails_with_patch': bool(fails_with), 'passes_without': bool(passes_without),
                               'with_tail': o1[-300:], 'without_tail': o2[-200:]}
                    break
            res['demo'] = demo_ok
    finally:
        sh('git -C /repo worktree remove --force %s' % wt)
        shutil.rmtree('/var/tmp/mutv', ignore_errors=True)
    if '--no-checks' in sys.argv:
        # validation only (nothing outside the scratch worktree is touched)
        res['checks'] = {}
        json.dump(res, open(os.path.join(src, 'seedtest.json'), 'w'), indent=1)
        print(json.dumps({k: v for k, v in res.items() if k != 'rebased_patch'}, indent=1))
        return 0
    # run the checks on /repo with the patch applied
    tmp = '/var/tmp/seed_rebased.diff'
    open(tmp, 'w').write(res['rebased_patch'])
    rc, out = sh('git -C /repo apply %s' % tmp)
    if rc != 0:
        res['repo_apply'] = 'FAILED ' + out
        print(json.dumps({k: v for k, v in res.items() if k != 'rebased_patch'}, indent=1))
        return 1
    res['checks'] = {}
    try:
        for c in checks:
            rc, out = sh('bin/check %s quick' % c, cwd='/verif', timeout=2400)
            lines = [l for l in out.split('\n') if l.startswith('VIOLATION') or l.startswith(c + ' quick')]
            res['checks'][c] = {'exit': rc, 'lines': [l[:400] for l in lines[:4]]}
    finally:
        sh('git -C /repo checkout -- . && git -C /repo reset -q --hard HEAD')
    os.remove(tmp)
    out = {k: v for k, v in res.items() if k != 'rebased_patch'}
    print(json.dumps(out, indent=1))
    json.dump(res, open(os.path.join(src, 'seedtest.json'), 'w'), indent=1)
    return 0


sys.exit(main())
